"""C04/C08 helpers: raw particle snapshots and conservation invariants in numpy longdouble.

Nothing here calls REBOUND's diagnostics: the particle array of the simulation is copied as bytes
(128-byte struct reb_particle = 16 doubles; columns below) and every sum is formed in extended
precision (x87 80-bit long double, eps_ld = 2^-63 ~ 1.1e-19), so the oracle's own rounding is >= 2000 times
smaller than the double-precision effects it is compared against.
"""
import ctypes

import numpy as np

X, Y, Z, VX, VY, VZ, AX, AY, AZ, M, R, LASTCOL = range(12)
PSIZE = 128
LD = np.longdouble
EPS = 2.0 ** -52


def parr(sim, n=None):
    """Copy of the first n (default N) particles as an (n,16) float64 array (bit-exact for the 12 double members)."""
    N = sim.N if n is None else n
    if N <= 0:
        return np.zeros((0, 16))
    raw = ctypes.string_at(ctypes.addressof(sim._particles.contents), N * PSIZE)
    return np.frombuffer(raw, dtype=np.float64).reshape(N, 16).copy()


def pbytes(sim, n=None):
    """Bit-exact image of the state members (x..vz, m, r) of the first n particles."""
    a = parr(sim, n)
    return a[:, [X, Y, Z, VX, VY, VZ, M, R]].tobytes()


def invariants(a, G=None, softening=0.0):
    """a: (N,16) array.  Returns dict of longdouble quantities and their rounding scales.
    mass, P (3), Psc = sum |m v|, MX = sum m x (3), MXsc = sum m|x|, L (3), Lsc = sum m |x||v|,
    and if G is given: E, Esc = sum |terms| (kinetic + |potential| pair terms)."""
    m = a[:, M].astype(LD)
    x = a[:, X:Z + 1].astype(LD)
    v = a[:, VX:VZ + 1].astype(LD)
    out = {}
    out["mass"] = m.sum()
    out["P"] = (m[:, None] * v).sum(axis=0)
    vn = np.sqrt((v * v).sum(axis=1))
    xn = np.sqrt((x * x).sum(axis=1))
    out["Psc"] = (np.abs(m) * vn).sum()
    out["MX"] = (m[:, None] * x).sum(axis=0)
    out["MXsc"] = (np.abs(m) * xn).sum()
    c = np.cross(x, v).astype(LD)
    out["L"] = (m[:, None] * c).sum(axis=0)
    out["Lsc"] = (np.abs(m) * xn * vn).sum()
    if G is not None:
        Gl = LD(G)
        kin = (LD(0.5) * m * (v * v).sum(axis=1))
        E = kin.sum()
        sc = np.abs(kin).sum()
        N = len(m)
        s2 = LD(softening) * LD(softening)
        for i in range(N):
            for j in range(i + 1, N):
                d = x[i] - x[j]
                rr = np.sqrt((d * d).sum() + s2)
                t = Gl * m[i] * m[j] / rr
                E -= t
                sc += abs(t)
        out["E"] = E
        out["Esc"] = sc
        out["Ekin"] = kin.sum()
    return out


def vnorm(v):
    v = np.asarray(v, dtype=LD)
    return float(np.sqrt((v * v).sum()))
