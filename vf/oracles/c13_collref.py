"""C13/C15 reference: brute-force collision predicates and ghost-image shifts in numpy longdouble.

Independent of src/collision.c: the predicates are written from the documentation
(docs/collisions.md, header comment of collision.c, docs/boundaryconditions.md):

  direct / tree   : a pair collides if |d| <= r1 + r2 (overlap) and d.dv <= 0 (approaching), where
                    d = x1 + shift - x2, dv = v1 + vshift - v2 for one of the ghost images of particle 1
  line / linetree : a pair collides if the minimum of |d - s dv| over s in [0, dt_last_done] is <= r1 + r2
  ghost images    : shift = (i Lx, j Ly, k Lz) for |i| <= min(N_ghost_x, 1) ... (innermost ring only);
                    shear: the image i additionally moves with vy = -3/2 i OMEGA Lx, so that its y offset
                    at time t is congruent to -3/2 i OMEGA Lx t modulo Ly (normalised to (-Ly/2, Ly/2]).

Every pair/image is classified as CLEAR (predicate holds with a margin larger than any double rounding of
the inputs could bridge), NOT (clearly fails) or AMBIGUOUS (within K*eps*scale of a predicate boundary; never
asserted on).  K = 32.
"""
import ctypes

import numpy as np

LD = np.longdouble
EPS = float(np.finfo(np.float64).eps)
K = 32.0

CLEAR, AMBIG, NOT = 2, 1, 0

_dtype = None


def particle_dtype():
    """numpy structured dtype laid over struct reb_particle, built from the ctypes mirror's offsets."""
    global _dtype
    if _dtype is None:
        import rebound
        P = rebound.Particle
        names, formats, offsets = [], [], []
        for f in ("x", "y", "z", "vx", "vy", "vz", "ax", "ay", "az", "m", "r", "last_collision"):
            names.append(f); formats.append("<f8"); offsets.append(getattr(P, f).offset)
        names.append("c"); formats.append("<u8"); offsets.append(P.c.offset)
        names.append("hash"); formats.append("<u4"); offsets.append(P._hash.offset)
        _dtype = np.dtype({"names": names, "formats": formats, "offsets": offsets, "itemsize": ctypes.sizeof(P)})
    return _dtype


def snapshot(sim, N=None):
    """Copy of the particle array as a structured numpy array (bit-exact)."""
    n = sim.N if N is None else N
    dt = particle_dtype()
    if n <= 0:
        return np.zeros(0, dtype=dt)
    addr = ctypes.addressof(sim._particles.contents)
    buf = ctypes.string_at(addr, n * dt.itemsize)
    return np.frombuffer(buf, dtype=dt).copy()


def pos(s):
    return np.stack([s["x"], s["y"], s["z"]], axis=1)


def vel(s):
    return np.stack([s["vx"], s["vy"], s["vz"]], axis=1)


# ---------------------------------------------------------------------------------------
# ghost images

def images(cfg, t, full=False):
    """List of (shift xyz, vshift xyz, ambiguous_flag) for particle 1; innermost ring only (collision searches),
    or all N_ghost rings with full=True (gravity).

    cfg: {"boundary": none|open|periodic|shear, "L": [Lx,Ly,Lz], "nghost": [gx,gy,gz], "omega": float}
    """
    b = cfg["boundary"]
    if b in ("none", "open") or cfg.get("L") is None:
        return [(np.zeros(3), np.zeros(3), False)]
    Lx, Ly, Lz = cfg["L"]
    g = [int(n) if full else min(int(n), 1) for n in cfg["nghost"]]
    out = []
    for i in range(-g[0], g[0] + 1):
        for j in range(-g[1], g[1] + 1):
            for k in range(-g[2], g[2] + 1):
                sh = np.array([i * Lx, j * Ly, k * Lz], dtype=np.float64)
                vs = np.zeros(3)
                amb = False
                if b == "shear" and i != 0:
                    om = cfg["omega"]
                    vy = -1.5 * i * om * Lx
                    vs[1] = vy
                    # y offset of image i at time t, normalised into (-Ly/2, Ly/2]
                    off = float(np.fmod(LD(vy) * LD(t), LD(Ly)))
                    if off > Ly / 2:
                        off -= Ly
                    elif off <= -Ly / 2:
                        off += Ly
                    if abs(abs(off) - Ly / 2) < 1e-9 * Ly:
                        amb = True      # the normalisation branch itself is a tie
                    sh[1] += off
                out.append((sh, vs, amb))
    return out


# ---------------------------------------------------------------------------------------
# predicates (vectorised: particle i against an array of partners)

def _rows(XI, VI, RI, SH, VS, XJ, VJ, RJ, line, dtl):
    """Status per row; every argument is an array with one row per (particle 1, image, particle 2)."""
    XI = np.asarray(XI, dtype=LD); VI = np.asarray(VI, dtype=LD); RI = np.asarray(RI, dtype=LD)
    SH = np.asarray(SH, dtype=LD); VS = np.asarray(VS, dtype=LD)
    XL = np.asarray(XJ, dtype=LD); VL = np.asarray(VJ, dtype=LD); RL = np.asarray(RJ, dtype=LD)
    d = (XI + SH) - XL
    dv = (VI + VS) - VL
    # absolute rounding bounds of a double evaluation of d, dv
    D = K * EPS * (np.abs(XI).sum(axis=1) + np.abs(SH).sum(axis=1) + np.abs(XL).sum(axis=1))
    Dv = K * EPS * (np.abs(VI).sum(axis=1) + np.abs(VS).sum(axis=1) + np.abs(VL).sum(axis=1))
    sr = RI + RL
    nd = np.sqrt((d * d).sum(axis=1))
    ndv = np.sqrt((dv * dv).sum(axis=1))
    st = np.full(nd.shape, AMBIG, dtype=np.int8)
    if not line:
        q = (d * dv).sum(axis=1)
        Eq = D * ndv + Dv * nd + K * EPS * np.abs(d * dv).sum(axis=1)
        over = nd + D < sr * (1 - K * EPS)
        nover = nd - D > sr * (1 + K * EPS)
        st[over & (q < -Eq)] = CLEAR
        st[nover | (q > Eq)] = NOT
    else:
        dtl = LD(dtl)
        dv2 = (dv * dv).sum(axis=1)
        pos_ = dv2 > 0
        s = np.where(pos_, (d * dv).sum(axis=1) / np.where(pos_, dv2, LD(1)), LD(0))
        lo, hi = (LD(0), dtl) if dtl >= 0 else (dtl, LD(0))
        s = np.clip(s, lo, hi)
        c = d - s[:, None] * dv
        rmin = np.sqrt((c * c).sum(axis=1))
        Dl = D + abs(dtl) * Dv + K * EPS * (nd + abs(dtl) * ndv)
        st[rmin + Dl < sr * (1 - K * EPS)] = CLEAR
        st[rmin - Dl > sr * (1 + K * EPS)] = NOT
    return st


def _prefilter(XI, VI, RI, X, V, R, SH, VS, line, dtl):
    """float64 pass: boolean (C, I, N) of pair-images that are NOT clearly separated by a wide margin
    (1e-3 relative in the radii plus 1e-9 of every length that enters): only these go to the longdouble pass;
    the rest are NOT whatever their velocities."""
    d = (XI[:, None, None, :] + SH[None, :, None, :]) - X[None, None, :, :]
    sr = RI[:, None, None] + R[None, None, :]
    scale = (np.abs(XI).sum(axis=1)[:, None, None] + np.abs(SH).sum(axis=1)[None, :, None]
             + np.abs(X).sum(axis=1)[None, None, :])
    if not line:
        nd = np.sqrt((d * d).sum(axis=3))
        return nd <= 1.001 * sr + 1e-9 * scale
    dv = (VI[:, None, None, :] + VS[None, :, None, :]) - V[None, None, :, :]
    dv2 = (dv * dv).sum(axis=3)
    pos_ = dv2 > 0
    with np.errstate(all="ignore"):
        s = np.where(pos_, (d * dv).sum(axis=3) / np.where(pos_, dv2, 1.0), 0.0)
    lo, hi = (0.0, dtl) if dtl >= 0 else (dtl, 0.0)
    s = np.clip(s, lo, hi)
    c = d - s[..., None] * dv
    rmin = np.sqrt((c * c).sum(axis=3))
    scale = scale + abs(dtl) * (np.sqrt(dv2) + np.abs(VI).sum(axis=1)[:, None, None]
                                + np.abs(VS).sum(axis=1)[None, :, None] + np.abs(V).sum(axis=1)[None, None, :])
    return rmin <= 1.001 * sr + 1e-9 * scale


def has_tie(cfg, t, full=False):
    """True if the azimuthal offset of a shear image is not pinned down by the documentation: within 1e-9 of the
    branch point of its normalisation, or t < 0 (the library's formula brings the offset into (-Ly/2, Ly/2] only for
    t >= 0; for negative times it picks the representative one box length further out, which matters when there
    is no ghost ring in y).  full=True looks at all N_ghost rings (gravity), otherwise at the innermost ring."""
    if cfg["boundary"] == "shear" and t < 0 and max(cfg["nghost"]) > 0:
        return True
    return any(amb for _, _, amb in images(cfg, t, full=full))


def classify_pairs(s, cfg, t, mode, dtl, colliders=None):
    """Unordered pair sets (by index into s): (must, maybe).

    must  : at least one image classified CLEAR
    maybe : at least one image CLEAR or AMBIGUOUS (superset of must)
    Pairs of two zero-radius particles are not evaluated unless one is listed in `colliders` (they can only
    collide if their centres/paths coincide exactly).
    """
    line = mode in ("line", "linetree")
    X, V, R = pos(s), vel(s), s["r"]
    n = len(s)
    idx = np.nonzero(R > 0)[0] if colliders is None else np.asarray(colliders, dtype=int)
    must, maybe = set(), set()
    if len(idx) == 0 or n < 2:
        return must, maybe
    imgs = images(cfg, t)
    SH = np.stack([im[0] for im in imgs])
    VS = np.stack([im[1] for im in imgs])
    # image of i against j; for the unordered pair this equals the opposite image of j against i, and the
    # ring is symmetric (the one asymmetric point, a shear offset of exactly Ly/2, is reported by has_tie)
    best = np.zeros((len(idx), n), dtype=np.int8)
    CH = 16
    for a in range(0, len(idx), CH):
        ii = idx[a:a + CH]
        cand = _prefilter(X[ii], V[ii], R[ii], X, V, R, SH, VS, line, float(dtl))
        cc, im, jj = np.nonzero(cand)
        if len(cc) == 0:
            continue
        st = _rows(X[ii][cc], V[ii][cc], R[ii][cc], SH[im], VS[im], X[jj], V[jj], R[jj], line, dtl)
        np.maximum.at(best, (a + cc, jj), st)
    best[np.arange(len(idx)), idx] = NOT
    cs, js = np.nonzero(best >= AMBIG)
    for c, j in zip(cs, js):
        i = int(idx[c]); j = int(j)
        pr = (i, j) if i < j else (j, i)
        maybe.add(pr)
        if best[c, j] == CLEAR:
            must.add(pr)
    return must, maybe


def pair_status(s, i, j, gb, mode, dtl):
    """Status of the reported collision (p1=i shifted by gb, p2=j).  gb = 6 floats."""
    line = mode in ("line", "linetree")
    X, V, R = pos(s), vel(s), s["r"]
    st = _rows(X[i:i + 1], V[i:i + 1], R[i:i + 1], np.array([gb[:3]], dtype=np.float64),
               np.array([gb[3:]], dtype=np.float64), X[j:j + 1], V[j:j + 1], R[j:j + 1], line, dtl)
    return int(st[0])


def gb_is_image(gb, cfg, t):
    """Is the reported ghost-box shift one of the documented image shifts (to rounding)?"""
    g = np.array(gb, dtype=np.float64)
    for sh, vs, amb in images(cfg, t):
        ref = np.concatenate([sh, vs])
        scale = np.abs(ref).max() + (max(cfg["L"]) if cfg.get("L") else 0.0) + 1e-300
        if np.abs(g - ref).max() <= 1e-9 * scale:
            return True
    return False


# ---------------------------------------------------------------------------------------
# conservation sums with condition numbers

def sums(s):
    """(M, P[3], X[3]) and the sums of absolute terms, all longdouble."""
    m = s["m"].astype(LD)
    X, V = pos(s).astype(LD), vel(s).astype(LD)
    M = m.sum()
    P = (m[:, None] * V).sum(axis=0)
    Q = (m[:, None] * X).sum(axis=0)
    aM = np.abs(m).sum()
    aP = (np.abs(m)[:, None] * np.abs(V)).sum(axis=0)
    aQ = (np.abs(m)[:, None] * np.abs(X)).sum(axis=0)
    return (M, P, Q), (aM, aP, aQ)
