"""C20 oracle: exact second-order Taylor arithmetic (two parameters a, b) over the rationals.

A Jet is (v, va, vb, vab) = value, d/da, d/db, d2/(da db).  With these the centre-of-mass shift
x_i -> x_i - sum(m_j x_j)/sum(m_j) is differentiated mechanically (no hand-derived formula), giving what first- and
second-order variational particles must become under move_to_com.  Every input is a double, i.e. a rational, so the
result is exact; `mag` runs the same computation on absolute values with every subtraction turned into an addition,
which bounds the sum of magnitudes of all terms (the condition number of the expression).
"""
from fractions import Fraction as Fr


class Jet:
    __slots__ = ("v", "a", "b", "ab", "mag")

    def __init__(self, v, a=0, b=0, ab=0, mag=False):
        self.v, self.a, self.b, self.ab, self.mag = Fr(v), Fr(a), Fr(b), Fr(ab), mag
        if mag:
            self.v, self.a, self.b, self.ab = abs(self.v), abs(self.a), abs(self.b), abs(self.ab)

    def __add__(self, o):
        return Jet(self.v + o.v, self.a + o.a, self.b + o.b, self.ab + o.ab, self.mag)

    def __sub__(self, o):
        if self.mag:
            return self + o
        return Jet(self.v - o.v, self.a - o.a, self.b - o.b, self.ab - o.ab)

    def __mul__(self, o):
        return Jet(self.v * o.v,
                   self.a * o.v + self.v * o.a,
                   self.b * o.v + self.v * o.b,
                   self.ab * o.v + self.a * o.b + self.b * o.a + self.v * o.ab, self.mag)

    def inv(self):
        r = 1 / self.v
        s = 1 if self.mag else -1
        return Jet(r, s * self.a * r * r, s * self.b * r * r,
                   s * self.ab * r * r + 2 * self.a * self.b * r ** 3, self.mag)


def com_shift(masses, coords, mag=False):
    """masses, coords: lists of 4-tuples (v, a, b, ab) per particle for one coordinate.  Returns the list of Jets of
    the shifted coordinate x_i - X."""
    m = [Jet(*t, mag=mag) for t in masses]
    x = [Jet(*t, mag=mag) for t in coords]
    M = m[0]
    S = m[0] * x[0]
    for i in range(1, len(m)):
        M = M + m[i]
        S = S + m[i] * x[i]
    X = S * M.inv()
    return [xi - X for xi in x], X
