"""C12 oracle: the four WHFast coordinate systems as explicit linear maps, written from their
mathematical definitions (not from transformations.c) and evaluated in mpmath.

Particles 0..n-1 are "active" (n = N_active), n..N-1 are test particles whose own mass is ignored.
M = sum_{k<n} m_k,   c = (m_0,...,m_{n-1},0,...)/M   (centre-of-mass row of the active set).

  jacobi      (Wisdom & Holman 1991; Rein & Tamayo 2015, sec. 2):
                y_0 = c.x ;  y_i = x_i - sum_{k<i} m_k x_k / eta_{i-1},  eta_{i-1} = sum_{k<i} m_k   (1 <= i < n)
                test particle i >= n:  y_i = x_i - c.x        (referenced to the COM of all active bodies)
                identical map for positions, velocities and accelerations
  democratic heliocentric (Duncan, Levison & Lee 1998):
                Q_0 = c.x ; Q_i = x_i - x_0 ;  V_0 = c.v ; V_i = v_i - c.v     (barycentric velocities)
  whds        (Hernandez & Dehnen 2017, canonical heliocentric with the momenta divided by the reduced mass):
                Q as above ;  V_0 = c.v ;  V_i = (m_0+m_i)/m_0 (v_i - c.v) for active i, v_i - c.v for test particles
  barycentric : y_0 = c.x ; y_i = x_i - c.x   (positions, velocities, accelerations)

Every map is returned as an mpmath matrix A (N x N) acting on one Cartesian component; the inverse map is
A**-1 computed in mpmath.  |A| and |A^-1| give the componentwise rounding yardstick
    |fl(A x) - A x| <= K eps |A||x|            (evaluation of a linear map)
    |roundtrip(x) - x| <= K eps (|B||A||x| + |B||A x|) ,  B = A^-1
which is what "to rounding error" means here (first-order forward error of a componentwise backward stable
evaluation; Higham, Accuracy and Stability of Numerical Algorithms, sec. 3.5).
"""
import mpmath as mp

DPS = 60
SYSTEMS = ("jacobi", "democraticheliocentric", "whds", "barycentric")


def _com_row(m, n, N):
    M = mp.fsum(m[:n])
    return [m[k] / M if k < n else mp.mpf(0) for k in range(N)], M


def matrices(system, masses, n_active):
    """-> (A_pos, A_vel, M) mp matrices for one Cartesian component; masses: list of python floats."""
    mp.mp.dps = DPS
    N = len(masses)
    n = n_active
    m = [mp.mpf(x) for x in masses]
    c, M = _com_row(m, n, N)
    Ap = mp.zeros(N, N)
    Av = mp.zeros(N, N)
    for k in range(N):
        Ap[0, k] = c[k]
        Av[0, k] = c[k]
    for i in range(1, N):
        if system == "jacobi":
            if i < n:
                eta = mp.fsum(m[:i])
                for k in range(i):
                    Ap[i, k] = -m[k] / eta
                Ap[i, i] = 1
            else:
                for k in range(N):
                    Ap[i, k] = -c[k]
                Ap[i, i] += 1
            for k in range(N):
                Av[i, k] = Ap[i, k]
        elif system in ("democraticheliocentric", "whds"):
            Ap[i, 0] = -1
            Ap[i, i] = 1
            f = mp.mpf(1)
            if system == "whds" and i < n:
                f = (m[0] + m[i]) / m[0]
            for k in range(N):
                Av[i, k] = -f * c[k]
            Av[i, i] += f
        elif system == "barycentric":
            for k in range(N):
                Ap[i, k] = -c[k]
            Ap[i, i] += 1
            for k in range(N):
                Av[i, k] = Ap[i, k]
        else:
            raise ValueError(system)
    return Ap, Av, M


def absm(A):
    B = mp.zeros(A.rows, A.cols)
    for i in range(A.rows):
        for j in range(A.cols):
            B[i, j] = abs(A[i, j])
    return B


def apply(A, cols):
    """cols: list (per Cartesian component) of lists of floats -> list of mp column lists."""
    out = []
    for col in cols:
        v = mp.matrix([mp.mpf(x) for x in col])
        r = A * v
        out.append([r[i] for i in range(A.rows)])
    return out


def yardsticks(A, system, masses, n_active, vel):
    """-> (fwd, rt, B).

    fwd_i = sum of the magnitudes of the coefficients of the *defining expression* of row i (x_i minus a mass-weighted
    mean: 1 + 1 = 2; times (m_0+m_i)/m_0 for WHDS velocities of active bodies; 1 for the COM row).  Using the
    defining expression rather than the collapsed matrix |A| matters when a heavy body nearly coincides with the
    mean it is referred to: computing the mean and subtracting it costs eps*max|x| whatever the collapsed
    coefficient 1-c_i is.
    rt_i = 2 (|B| fwd)_i with B = A^-1, floored at 4.

    With xmax = max_k |x_k|: forward evaluation error <= K eps fwd_i xmax, round trip error <= K eps rt_i xmax.
    """
    mp.mp.dps = DPS
    N = A.rows
    B = A ** -1
    aB = absm(B)
    f = [mp.mpf(2)] * N
    f[0] = mp.mpf(1)
    if system == "whds" and vel:
        m = [mp.mpf(x) for x in masses]
        for i in range(1, n_active):
            f[i] = 2 * (m[0] + m[i]) / m[0]
    r = aB * mp.matrix(f)
    return [float(x) for x in f], [max(4.0, 2.0 * float(r[i])) for i in range(N)], B
