"""C11 oracle: orbital elements <-> Cartesian and the anomaly conversions in mpmath (40 digits).

Independent of REBOUND's formulas: Kepler's equation is solved by a bracketed Newton/bisection on the
defining equation, elements -> Cartesian goes through perifocal coordinates and the three textbook rotation
matrices R3(Omega) R1(inc) R3(omega), Cartesian -> elements uses the vector definitions with atan2 (never acos).

Conventions (REBOUND's documented ones): reference direction +x, reference plane xy; for retrograde orbits
(cos(inc) <= 0 on input, inc >= pi/2 on output) pomega = Omega - omega, theta = Omega - omega - f,
l = Omega - omega - M; P and n are negative for hyperbolic orbits; M = n_abs (t - T).
"""
import mpmath as mp

mp.mp.dps = 40
EPS = 2.0 ** -52
TWO_PI = 2 * mp.pi


def F(x):
    return mp.mpf(x)


def wrap_pm(x):
    """x mod 2pi into (-pi, pi]."""
    y = mp.fmod(x, TWO_PI)
    if y > mp.pi:
        y -= TWO_PI
    if y <= -mp.pi:
        y += TWO_PI
    return y


def wrap_0(x):
    y = mp.fmod(x, TWO_PI)
    if y < 0:
        y += TWO_PI
    return y


def kepler_E(e, M):
    """Eccentric anomaly: elliptic (E - e sin E = M, returned in the same revolution as M) or hyperbolic
    (e sinh H - H = M).  Bracketed Newton on the monotone defining function."""
    e, M = F(e), F(M)
    if e < 1:
        k = mp.floor(M / TWO_PI)
        Mr = M - k * TWO_PI
        lo, hi = F(0), TWO_PI

        def g(E):
            return E - e * mp.sin(E) - Mr

        def dg(E):
            return 1 - e * mp.cos(E)
        x = Mr if e < F("0.8") else mp.pi
        off = k * TWO_PI
    else:
        Mr = M
        s = 1 if M >= 0 else -1
        hi = F(1)
        while e * mp.sinh(hi) - hi < abs(M):
            hi *= 2
        lo, hi = (F(0), hi) if s > 0 else (-hi, F(0))

        def g(E):
            return e * mp.sinh(E) - E - Mr

        def dg(E):
            return e * mp.cosh(E) - 1
        x = (lo + hi) / 2
        off = 0
    tol = F(10) ** (-mp.mp.dps + 4)
    for _ in range(400):
        gx = g(x)
        if gx > 0:
            hi = x
        else:
            lo = x
        d = dg(x)
        xn = x - gx / d if d != 0 else (lo + hi) / 2
        if not (lo <= xn <= hi):
            xn = (lo + hi) / 2
        if abs(xn - x) <= tol * (1 + abs(x)):
            x = xn
            break
        x = xn
    return x + off


def E_to_f(e, E):
    e, E = F(e), F(E)
    if e < 1:
        # atan2 form, continuous through E = pi
        return 2 * mp.atan2(mp.sqrt(1 + e) * mp.sin(E / 2), mp.sqrt(1 - e) * mp.cos(E / 2))
    return 2 * mp.atan(mp.sqrt((e + 1) / (e - 1)) * mp.tanh(E / 2))


def f_to_E(e, f):
    e, f = F(e), F(f)
    if e < 1:
        return 2 * mp.atan2(mp.sqrt(1 - e) * mp.sin(f / 2), mp.sqrt(1 + e) * mp.cos(f / 2))
    return 2 * mp.atanh(mp.sqrt((e - 1) / (e + 1)) * mp.tan(wrap_pm(f) / 2))


def E_to_M(e, E):
    e, E = F(e), F(E)
    if e < 1:
        return E - e * mp.sin(E)
    return e * mp.sinh(E) - E


def M_to_f(e, M):
    return E_to_f(e, kepler_E(e, M))


def rot3(a, v):
    c, s = mp.cos(a), mp.sin(a)
    return [c * v[0] - s * v[1], s * v[0] + c * v[1], v[2]]


def rot1(a, v):
    c, s = mp.cos(a), mp.sin(a)
    return [v[0], c * v[1] - s * v[2], s * v[1] + c * v[2]]


def el2cart(mu, a, e, inc, Omega, omega, f):
    """Relative state from classical elements (elliptic or hyperbolic)."""
    mu, a, e, inc, Omega, omega, f = [F(x) for x in (mu, a, e, inc, Omega, omega, f)]
    p = a * (1 - e * e)
    r = p / (1 + e * mp.cos(f))
    v0 = mp.sqrt(mu / p)
    pos = [r * mp.cos(f), r * mp.sin(f), F(0)]
    vel = [-v0 * mp.sin(f), v0 * (e + mp.cos(f)), F(0)]
    out = []
    for v in (pos, vel):
        out += rot3(Omega, rot1(inc, rot3(omega, v)))
    return out


def resolve_classical(mu, t, kw, dM=0, df=0):
    """Documented meaning of the keyword set of a classical-element particle -> (a, e, inc, Omega, omega, f).
    kw values are mp numbers or absent.  mu = G (m + m_primary)."""
    g = lambda k, d=None: F(kw[k]) if k in kw else d
    a = g("a")
    if a is None:
        P = g("P")
        a = mp.cbrt(P * P * mu / (4 * mp.pi ** 2))
    e = g("e", F(0))
    inc = g("inc", F(0))
    Omega = g("Omega", F(0))
    pro = mp.cos(inc) > 0
    if "pomega" in kw:
        omega = (g("pomega") - Omega) if pro else (Omega - g("pomega"))
    else:
        omega = g("omega", F(0))
    f = F(0)
    if "f" in kw:
        f = g("f")
    elif "theta" in kw:
        f = (g("theta") - Omega - omega) if pro else (Omega - omega - g("theta"))
    elif "l" in kw or "T" in kw or "M" in kw:
        if "l" in kw:
            M = (g("l") - Omega - omega) if pro else (Omega - omega - g("l"))
        elif "T" in kw:
            n = mp.sqrt(mu / abs(a) ** 3)
            M = n * (F(t) - g("T"))
        else:
            M = g("M")
        f = M_to_f(e, M + dM)
    elif "E" in kw:
        f = E_to_f(e, g("E"))
    return a, e, inc, Omega, omega, f + df


def resolve_pal(mu, kw, dM=0, df=0):
    """Pal (2009): k = e cos(pomega), h = e sin(pomega), ix = 2 sin(i/2) cos(Omega), iy = 2 sin(i/2) sin(Omega),
    lambda = Omega + omega + M with pomega = Omega + omega for every inclination."""
    g = lambda k, d=None: F(kw[k]) if k in kw else d
    a = g("a")
    if a is None:
        P = g("P")
        a = mp.cbrt(P * P * mu / (4 * mp.pi ** 2))
    h, k, ix, iy, l = g("h", F(0)), g("k", F(0)), g("ix", F(0)), g("iy", F(0)), g("l", F(0))
    e = mp.sqrt(h * h + k * k)
    pom = mp.atan2(h, k) if e != 0 else F(0)
    s = mp.sqrt(ix * ix + iy * iy) / 2
    inc = 2 * mp.asin(min(s, F(1)))
    Omega = mp.atan2(iy, ix) if s != 0 else F(0)
    omega = pom - Omega
    M = l - pom
    return a, e, inc, Omega, omega, M_to_f(e, M + dM) + df


def forward(G, m, mp_, t, kw, pal=False, dM=0, df=0):
    mu = F(G) * (F(m) + F(mp_))
    if pal:
        el = resolve_pal(mu, kw, dM, df)
    else:
        el = resolve_classical(mu, t, kw, dM, df)
    return el2cart(mu, *el), el


def forward_with_cond(G, m, mp_, t, kw, pal=False):
    """Relative state, and per-block (position, velocity) condition numbers: sum over inputs of the change of
    the block under a relative perturbation 2 eps of that input, divided by 2 eps."""
    base, el = forward(G, m, mp_, t, kw, pal)
    h = F(2 * EPS)
    cpos = F(0)
    cvel = F(0)
    inputs = [("G", G), ("m", m), ("mp", mp_), ("t", t)]

    def run(G_, m_, mp2, t_, kw_):
        try:
            return forward(G_, m_, mp2, t_, kw_, pal)[0]
        except (ZeroDivisionError, ValueError):
            return None
    for name in ("G", "m", "mp", "t"):
        vals = {"G": F(G), "m": F(m), "mp": F(mp_), "t": F(t)}
        if vals[name] == 0:
            continue
        vals[name] = vals[name] * (1 + h)
        out = run(vals["G"], vals["m"], vals["mp"], vals["t"], kw)
        if out is None:
            return base, el, mp.inf, mp.inf, 0, 0
        cpos += mp.sqrt(sum((out[i] - base[i]) ** 2 for i in range(3))) / h
        cvel += mp.sqrt(sum((out[i] - base[i]) ** 2 for i in range(3, 6))) / h
    for k in kw:
        if F(kw[k]) == 0:
            continue
        kw2 = dict(kw)
        kw2[k] = F(kw[k]) * (1 + h)
        out = run(G, m, mp_, t, kw2)
        if out is None:
            return base, el, mp.inf, mp.inf, 0, 0
        cpos += mp.sqrt(sum((out[i] - base[i]) ** 2 for i in range(3))) / h
        cvel += mp.sqrt(sum((out[i] - base[i]) ** 2 for i in range(3, 6))) / h
    # intermediates that exist as rounded doubles in any implementation built on the documented
    # reb_particle_from_orbit(..., f) interface: the true anomaly f (an angle reduced to [0,2pi): known to
    # eps*(|f|+2pi)) and, for bound orbits, the mean anomaly reduced modulo 2pi (known to eps*2pi)
    fw = abs(wrap_0(el[5])) + TWO_PI
    for dM, df in ((0, fw * h), (TWO_PI * h if el[1] < 1 else 0, 0)):
        if dM == 0 and df == 0:
            continue
        try:
            out = forward(G, m, mp_, t, kw, pal, dM, df)[0]
        except (ZeroDivisionError, ValueError):
            return base, el, mp.inf, mp.inf, 0, 0
        cpos += mp.sqrt(sum((out[i] - base[i]) ** 2 for i in range(3))) / h
        cvel += mp.sqrt(sum((out[i] - base[i]) ** 2 for i in range(3, 6))) / h
    # an unbound orbit's mean anomaly is solved for with an absolute residual of 1e-16 (~eps/2): allowed as rounding of
    # an O(1) quantity; returned separately (absolute change of the state, not scaled by eps)
    apos = avel = F(0)
    if el[1] > 1 and any(k in kw for k in ("M", "l", "T")):
        try:
            out = forward(G, m, mp_, t, kw, pal, F(1e-16), 0)[0]
            apos = mp.sqrt(sum((out[i] - base[i]) ** 2 for i in range(3)))
            avel = mp.sqrt(sum((out[i] - base[i]) ** 2 for i in range(3, 6)))
        except (ZeroDivisionError, ValueError):
            return base, el, mp.inf, mp.inf, apos, avel
    return base, el, cpos, cvel, apos, avel


# ---------------------------------------------------------------------------------------
# Cartesian -> elements

ELEMENT_NAMES = ("d", "v", "h", "P", "n", "a", "e", "inc", "Omega", "omega", "pomega", "f", "M", "l", "theta", "T",
                 "rhill", "pal_h", "pal_k", "pal_ix", "pal_iy", "hx", "hy", "hz", "ex", "ey", "ez", "E")
ANGLES = ("inc", "Omega", "omega", "pomega", "f", "M", "l", "theta", "E", "u", "theta_planar", "pomega_planar")


def cart2el(G, m, mp_, t, s):
    """All reported quantities from the relative state s = [dx,dy,dz,dvx,dvy,dvz] (mp numbers).
    Returns dict name -> mp value, plus auxiliary values used for the tolerance model."""
    G, m, mp_, t = F(G), F(m), F(mp_), F(t)
    x, y, z, vx, vy, vz = [F(q) for q in s]
    mu = G * (m + mp_)
    d = mp.sqrt(x * x + y * y + z * z)
    v2 = vx * vx + vy * vy + vz * vz
    o = {"d": d, "v": mp.sqrt(v2)}
    a = -mu / (v2 - 2 * mu / d)
    hx, hy, hz = y * vz - z * vy, z * vx - x * vz, x * vy - y * vx
    h = mp.sqrt(hx * hx + hy * hy + hz * hz)
    rv = x * vx + y * vy + z * vz
    ex = ((v2 - mu / d) * x - rv * vx) / mu
    ey = ((v2 - mu / d) * y - rv * vy) / mu
    ez = ((v2 - mu / d) * z - rv * vz) / mu
    e = mp.sqrt(ex * ex + ey * ey + ez * ez)
    nabs = mp.sqrt(mu / abs(a) ** 3)
    n = nabs if a > 0 else -nabs
    o.update(a=a, h=h, hx=hx, hy=hy, hz=hz, ex=ex, ey=ey, ez=ez, e=e, n=n, P=TWO_PI / n,
             rhill=a * mp.cbrt(m / (3 * mp_)))
    inc = mp.atan2(mp.sqrt(hx * hx + hy * hy), hz)
    nx, ny = -hy, hx
    nn = mp.sqrt(nx * nx + ny * ny)
    Omega = mp.atan2(ny, nx) if nn != 0 else F(0)
    pro = inc < mp.pi / 2
    # unit vectors in the orbital plane: node direction N, and Q = hhat x N
    if nn != 0:
        N = [nx / nn, ny / nn, F(0)]
    else:
        N = [F(1), F(0), F(0)]
    hh = [hx / h, hy / h, hz / h]
    Q = [hh[1] * N[2] - hh[2] * N[1], hh[2] * N[0] - hh[0] * N[2], hh[0] * N[1] - hh[1] * N[0]]
    # argument of latitude u = omega + f, argument of pericentre
    u = mp.atan2(x * Q[0] + y * Q[1] + z * Q[2], x * N[0] + y * N[1] + z * N[2])
    if e != 0:
        omega = mp.atan2(ex * Q[0] + ey * Q[1] + ez * Q[2], ex * N[0] + ey * N[1] + ez * N[2])
    else:
        omega = F(0)
    f = u - omega
    if e < 1:
        Ea = f_to_E(e, f)
        M = Ea - e * mp.sin(Ea)
    else:
        Ea = f_to_E(e, f)
        M = e * mp.sinh(Ea) - Ea
    if pro:
        pomega = Omega + omega
        theta = Omega + u
        l = pomega + M
    else:
        pomega = Omega - omega
        theta = Omega - u
        l = pomega - M
    o.update(inc=inc, Omega=Omega, omega=omega, pomega=pomega, f=f, M=M, l=l, theta=theta, E=Ea,
             T=t - M / nabs)
    # Pal (2009) variables from the vector definitions
    fac = mp.sqrt(2 / (1 + hz / h)) / h if (1 + hz / h) != 0 else mp.inf
    o["pal_ix"] = -fac * hy
    o["pal_iy"] = fac * hx
    if (h + hz) != 0:
        o["pal_k"] = h / mu * (vy - vz / (h + hz) * hy) - (x - z / (h + hz) * hx) / d
        o["pal_h"] = h / mu * (-vx + vz / (h + hz) * hx) - (y - z / (h + hz) * hy) / d
    else:
        o["pal_k"] = mp.inf
        o["pal_h"] = mp.inf
    # auxiliary quantities of the tolerance model (not reported by the library)
    o["u"] = u
    o["theta_planar"] = mp.atan2(y, x)
    o["pomega_planar"] = mp.atan2(ey, ex) if e != 0 else F(0)
    o["cosE"] = (1 - d / a) / e if e != 0 else F(0)
    aux = {"u": u, "nn_over_h": nn / h, "vr": rv / d, "mu": mu, "theta_planar": o["theta_planar"],
           "pomega_planar": o["pomega_planar"], "cosE": o["cosE"]}
    return o, aux


def cart2el_with_cond(G, m, mp_, t, s):
    """Elements and, per element, cond = sum over inputs (G, m, m_primary, t and the six relative coordinates) of
    |change under a relative 2 eps perturbation| / (2 eps); angles compared modulo 2 pi."""
    base, aux = cart2el(G, m, mp_, t, s)
    h = F(2 * EPS)
    cond = {k: F(0) for k in base}
    scal = [F(G), F(m), F(mp_), F(t)]
    vec = [F(q) for q in s]
    allin = scal + vec
    for i, val in enumerate(allin):
        if val == 0:
            continue
        al = list(allin)
        al[i] = val * (1 + h)
        try:
            o2, _ = cart2el(al[0], al[1], al[2], al[3], al[4:])
        except (ZeroDivisionError, ValueError):
            for k in cond:
                cond[k] = mp.inf
            break
        for k in base:
            dlt = o2[k] - base[k]
            if k in ANGLES and not (k in ("M", "l", "E") and base["e"] >= 1):
                dlt = wrap_pm(dlt)
            if not mp.isfinite(dlt):
                cond[k] = mp.inf
            else:
                cond[k] += abs(dlt) / h
    return base, aux, cond
