"""Independent parser of REBOUND's binary snapshot format, written from docs/binaryformat.md.

stream = 64-byte header, then fields {uint32 type, (4 pad), uint64 size} + payload, terminated by
a field of type 9999 (END), followed by a 12-byte blob trailer {int32 index, offset_prev, offset_next}.

`stream_map(bytes)` returns {type:int -> payload:bytes} for ONE snapshot stream with
pointer-valued members masked *by position* (a pointer is an address, not state) and
struct padding masked.  `walltime*` fields (ids 126, 127) are dropped.
"""
import struct

FIELD = struct.Struct("<I4xQ")      # 16 bytes
BLOB = struct.Struct("<iii")        # 12 bytes
END = 9999
HEADER_TYPE = 1329743186
T_PARTICLES = 85
T_VARCONFIG = 86
T_WHFAST_PJH = 104
T_WH512_PJH0 = 399
T_WALLTIME = (126, 127)
T_FUNCPTR = 87

PARTICLE_SIZE = 128
# (offset, length) byte ranges inside a reb_particle that are not state: c pointer, padding after hash, ap, sim
PARTICLE_MASK = [(96, 8), (108, 4), (112, 8), (120, 8)]
VARCONFIG_SIZE = 40
VARCONFIG_MASK = [(0, 8), (28, 4)]   # sim pointer; padding before the double


class FormatError(Exception):
    pass


def _mask_records(payload, recsize, mask):
    if len(payload) % recsize:
        return payload
    b = bytearray(payload)
    for base in range(0, len(b), recsize):
        for off, ln in mask:
            b[base + off:base + off + ln] = b"\0" * ln
    return bytes(b)


def parse_fields(buf, pos, strict=True):
    """Parse fields from pos until END. Returns (list[(type, payload)], pos_after_END_field)."""
    out = []
    n = len(buf)
    while True:
        if pos + FIELD.size > n:
            raise FormatError("field header beyond end of data at %d" % pos)
        typ, size = FIELD.unpack_from(buf, pos)
        pos += FIELD.size
        if typ == END:
            return out, pos
        if pos + size > n:
            raise FormatError("payload of field %d (size %d) beyond end of data at %d" % (typ, size, pos))
        out.append((typ, bytes(buf[pos:pos + size])))
        pos += size


# ri_whfast.p_jh holds Jacobi/heliocentric coordinates: positions, velocities, accelerations and masses.
# Its ax,ay,az (within-step scratch, unassigned in non-Jacobi coordinates) and r / last_collision / hash members are never assigned by the integrator (uninitialised heap bytes end up in
# the file); they are not quantities of the simulation.
PJH_MASK = PARTICLE_MASK  # (was: + ax..az, r, last_collision, hash while those were uninitialised heap bytes; fixed in /repo)


def mask_field(typ, payload):
    if typ == T_WHFAST_PJH:
        return _mask_records(payload, PARTICLE_SIZE, PJH_MASK)
    if typ in (T_PARTICLES, T_WH512_PJH0):
        return _mask_records(payload, PARTICLE_SIZE, PARTICLE_MASK)
    if typ == T_VARCONFIG:
        return _mask_records(payload, VARCONFIG_SIZE, VARCONFIG_MASK)
    return payload


def stream_map(buf, drop_walltime=True, drop_funcptr=True):
    """One full snapshot stream (as produced by save_to_stream / a one-snapshot file)."""
    if len(buf) < 64:
        raise FormatError("shorter than header")
    fields, pos = parse_fields(buf, 64)
    m = {}
    for typ, payload in fields:
        if drop_walltime and typ in T_WALLTIME:
            continue
        if typ == T_FUNCPTR and drop_funcptr:
            continue    # "callbacks were set" warning flag; callbacks are re-attached by the user, not persisted
        if typ in m:
            raise FormatError("duplicate field %d" % typ)
        m[typ] = mask_field(typ, payload)
    return m


def header_of(buf):
    return bytes(buf[:64])


def map_diff(a, b, names=None):
    """Human-readable list of differing field ids between two maps."""
    out = []
    for k in sorted(set(a) | set(b)):
        if a.get(k) != b.get(k):
            nm = names.get(k, str(k)) if names else str(k)
            la = None if k not in a else len(a[k])
            lb = None if k not in b else len(b[k])
            first = None
            if k in a and k in b:
                for i, (x, y) in enumerate(zip(a[k], b[k])):
                    if x != y:
                        first = i
                        break
            out.append({"field": nm, "len_a": la, "len_b": lb, "first_diff_byte": first})
    return out


def archive_layout(buf):
    """Walk an archive file per the documented layout.
    Returns list of dicts {start, end_fields (pos after END field), trailer:(index,prev,next), end}."""
    blobs = []
    pos = 0
    n = len(buf)
    first = True
    while pos < n:
        start = pos
        fields, p = parse_fields(buf, pos + 64 if first else pos)
        if p + BLOB.size > n:
            raise FormatError("trailer beyond end")
        tr = BLOB.unpack_from(buf, p)
        blobs.append({"start": start, "end_fields": p, "trailer": tr, "end": p + BLOB.size,
                      "types": [t for t, _ in fields]})
        pos = p + BLOB.size
        first = False
        if tr[2] == 0:
            break
    return blobs
