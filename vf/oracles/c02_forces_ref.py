"""C02 oracle: the softened Newtonian pairwise sum with the documented active / test-particle semantics,
ghost-box images and ignore-term rules, written from docs/simulationvariables.md + docs/gravity.md +
the property statement (not from gravity.c).

Specification implemented here
  a_i = - sum_{g in images} sum_{j != i, acts(j,i)} G m_j (x_i + g - x_j) / (|x_i + g - x_j|^2 + b^2)^(3/2)
  acts(j,i):  j active (j < N_active)                                   -> acts on every i
              j test particle, testparticle_type == 1, i active          -> acts on i
              otherwise (type 0, or i also a test particle)              -> does not act
  gravity_ignore_terms 1: the pair {0,1} is dropped (both directions); 2: every pair containing particle 0.
  images g: all (i*Lx, j*Ly, k*Lz) (+ the shear displacement) with |i|<=N_ghost_x etc.; a particle's own
  images are not included.

Two implementations: numpy.longdouble (x87 80-bit, eps 1.1e-19; any N) and mpmath (40 digits; small N),
both return the acceleration and `cond_i` = sum of |term| magnitudes (plus the amplification of the rounding
of x_i+g when g != 0), the yardstick for K*eps*cond tolerances.
"""
import numpy as np

LD = np.longdouble


def acts_matrix(N, n_active, tp_type, ignore):
    """mask[i, j] = 1 if source j acts on target i."""
    n = N if n_active is None or n_active < 0 else min(n_active, N)
    idx = np.arange(N)
    src_active = idx[None, :] < n
    tgt_active = idx[:, None] < n
    mask = src_active | ((~src_active) & tgt_active & bool(tp_type))
    mask = mask & (idx[:, None] != idx[None, :])
    if ignore == 1 and N > 1:
        mask[0, 1] = mask[1, 0] = False
    elif ignore == 2 and N > 0:
        mask[0, :] = False
        mask[:, 0] = False
    return mask


def direct_ld(pos, m, G, soft, mask, shifts=((0.0, 0.0, 0.0),), weight=None):
    """pos (N,3), m (N,) python floats.  mask (N,N) bool [target, source].  weight: optional callable
    (r (N,N) longdouble distances incl. softening) -> (N,N) multiplier.
    -> acc (N,3) longdouble, cond (N,) float, rmin2 (float: smallest |d|^2+b^2 over acting pairs)."""
    X = np.array(pos, dtype=LD).reshape(-1, 3)
    M = np.array(m, dtype=LD)
    N = len(M)
    acc = np.zeros((N, 3), dtype=LD)
    cond = np.zeros(N, dtype=LD)
    rmin2 = np.inf
    if N == 0:
        return acc, cond.astype(float), rmin2
    Gl = LD(G)
    s2 = LD(soft) * LD(soft)
    mk = np.array(mask, dtype=bool)
    for g in shifts:
        gv = np.array(g, dtype=LD)
        nz = bool(np.any(gv != 0))
        Xi = X + gv                                     # target image positions
        D = Xi[:, None, :] - X[None, :, :]              # (i, j, 3)
        r2 = np.sum(D * D, axis=2) + s2
        use = mk
        if not np.any(use):
            continue
        r2u = np.where(use, r2, LD(1))
        rmin2 = min(rmin2, float(np.min(np.where(use, r2, np.inf))))
        with np.errstate(divide="ignore", invalid="ignore"):
            w = Gl * M[None, :] / (r2u * np.sqrt(r2u))
        w = np.where(use, w, LD(0))
        w0 = w
        if weight is not None:
            w = w * weight(np.sqrt(r2u))      # weights are in [0,1]; cond keeps the unweighted magnitudes because
            #                                   the absolute rounding error of a weight near 0 scales with the full term
        acc -= np.sum(w[:, :, None] * D, axis=1)
        dn = np.sqrt(np.sum(D * D, axis=2))
        e = np.sqrt(np.sum(Xi * Xi, axis=1))[:, None] if nz else LD(0)
        cond += np.sum(np.abs(w0) * (dn + 4 * e), axis=1)
    return acc, cond.astype(float), rmin2


def direct_mp(pos, m, G, soft, mask, shifts=((0.0, 0.0, 0.0),), weight=None, dps=40):
    """Same sum in mpmath (independent loops, no vectorisation).  weight: callable(r_mp, i, j) -> mp number."""
    import mpmath as mp
    mp.mp.dps = dps
    N = len(m)
    X = [[mp.mpf(c) for c in p] for p in pos]
    M = [mp.mpf(x) for x in m]
    Gm = mp.mpf(G)
    s2 = mp.mpf(soft) ** 2
    acc = [[mp.mpf(0)] * 3 for _ in range(N)]
    for i in range(N):
        a = [mp.mpf(0)] * 3
        for g in shifts:
            gm = [mp.mpf(c) for c in g]
            for j in range(N):
                if not mask[i][j]:
                    continue
                d = [X[i][k] + gm[k] - X[j][k] for k in range(3)]
                r2 = d[0] * d[0] + d[1] * d[1] + d[2] * d[2] + s2
                r = mp.sqrt(r2)
                w = Gm * M[j] / (r2 * r)
                if weight is not None:
                    w = w * weight(r, i, j)
                a = [a[k] - w * d[k] for k in range(3)]
        acc[i] = a
    return acc


def ghost_shifts(box, ng, shear=None):
    """box = (Lx, Ly, Lz); ng = (nx, ny, nz); shear = callable(i) -> y displacement of image column i (or None)."""
    out = []
    for i in range(-ng[0], ng[0] + 1):
        for j in range(-ng[1], ng[1] + 1):
            for k in range(-ng[2], ng[2] + 1):
                gy = box[1] * j
                if shear is not None:
                    gy = gy + shear(i)
                out.append((box[0] * i, gy, box[2] * k))
    return out


def jacobi_terms_mp(pos, m, G, dps=40, soft=0.0):
    """Accelerations in inertial coordinates generated by the Jacobi part of the Wisdom-Holman interaction
    Hamiltonian  U_J = sum_{i>=1} G m_i eta_{i-1} / |r'_i|,  r'_i = r_i - R_{i-1}  (Rein & Tamayo 2015, eq. 11-13):
        a_k = -(1/m_k) d(U_J)/d r_k = [k>=1] G eta_{k-1} r'_k/|r'_k|^3 - sum_{i>k} G m_i r'_i/|r'_i|^3
    The i = 1 term is returned separately: it cancels the direct (0,1) pair identically.
    -> (acc_i>=2 terms (N x 3 mp), cond (N floats), acc of the i=1 term (N x 3 mp))."""
    import mpmath as mp
    mp.mp.dps = dps
    N = len(m)
    X = [[mp.mpf(c) for c in p] for p in pos]
    M = [mp.mpf(x) for x in m]
    Gm = mp.mpf(G)
    acc = [[mp.mpf(0)] * 3 for _ in range(N)]
    acc1 = [[mp.mpf(0)] * 3 for _ in range(N)]
    cond = [mp.mpf(0)] * N
    eta = M[0] if N else mp.mpf(0)
    S = [M[0] * c for c in X[0]] if N else None
    for i in range(1, N):
        R = [c / eta for c in S]
        rp = [X[i][k] - R[k] for k in range(3)]
        r = mp.sqrt(rp[0] ** 2 + rp[1] ** 2 + rp[2] ** 2 + mp.mpf(soft) ** 2)   # softened like every other distance
        u = [c / r ** 3 for c in rp]
        tgt = acc1 if i == 1 else acc
        un = mp.sqrt(u[0] ** 2 + u[1] ** 2 + u[2] ** 2)
        amp = (abs(X[i][0]) + abs(X[i][1]) + abs(X[i][2]) + abs(R[0]) + abs(R[1]) + abs(R[2])) / r ** 3
        for k in range(3):
            tgt[i][k] += Gm * eta * u[k]
        if i > 1:
            cond[i] += Gm * eta * (un + 4 * amp)
        for j in range(i):
            for k in range(3):
                tgt[j][k] -= Gm * M[i] * u[k]
            if i > 1:
                cond[j] += Gm * M[i] * (un + 4 * amp)
        for k in range(3):
            S[k] += M[i] * X[i][k]
        eta += M[i]
    return acc, [float(c) for c in cond], acc1
