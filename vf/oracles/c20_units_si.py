"""C20 oracle: an SI table of the units REBOUND supports, written down independently of rebound/units.py.

Lengths and times are exact definitions (IAU 2012 au; parsec = 648000/pi au; Julian year = 365.25 d of 86400 s) except
the sidereal year (365.256363004 d, J2000) and yr2pi, which the documentation defines as 'year divided by 2pi, with year
defined as orbital period of planet at 1AU around 1Msun star', i.e. the time unit that makes G = 1 with au and Msun.

Masses: what is measured is GM.  Values in km^3/s^2 for the body itself (not the planetary system), as published with
the JPL planetary/satellite ephemerides (DE430-era; newer solutions differ in the digits beyond the stated tolerance).
kg-based units need Newton's constant, which is known to 2.2e-5 (CODATA 2014: 6.67408e-11, CODATA 2018: 6.67430e-11).
'massist' is documented as the mass unit that keeps G = 1 with length au and time day.

expected_G(l, t, m) returns (G, relative tolerance).
"""
import math

AU = 149597870700.0
DAY = 86400.0
JYR = 365.25 * DAY

LENGTH = {"m": 1.0, "cm": 0.01, "km": 1000.0, "au": AU, "aus": AU,
          "pc": 648000.0 / math.pi * AU, "parsec": 648000.0 / math.pi * AU}
LENGTH_TOL = {"pc": 1e-9, "parsec": 1e-9}            # the parsec is commonly tabulated with 10 digits

GM_SUN = 1.32712440041e20                            # m^3/s^2 (IAU nominal 1.3271244e20; DE430 1.32712440041939e20)

TIME = {"s": 1.0, "hr": 3600.0, "day": DAY, "days": DAY, "d": DAY,
        "yr": JYR, "year": JYR, "years": JYR, "yrs": JYR, "jyr": JYR,
        "sidereal_yr": 365.256363004 * DAY,
        "yr2pi": math.sqrt(AU ** 3 / GM_SUN),
        "kyr": 1e3 * JYR, "myr": 1e6 * JYR, "gyr": 1e9 * JYR}
TIME_TOL = {"sidereal_yr": 1e-11, "yr2pi": 1e-10}    # tabulated to 12 digits; GM_sun between ephemerides: 5e-12

# GM in m^3/s^2 and relative tolerance (spread between ephemeris solutions)
GM = {
    "msun": (GM_SUN, 1e-9), "solarmass": (GM_SUN, 1e-9), "sunmass": (GM_SUN, 1e-9), "msolar": (GM_SUN, 1e-9),
    "mmercury": (22031.8e9, 2e-5),
    "mvenus": (324858.59e9, 2e-6),
    "mearth": (398600.436e9, 2e-6),
    "mmars": (42828.37e9, 2e-6),
    "mjupiter": (126686535.0e9, 2e-6),
    "msaturn": (37931207.0e9, 2e-6),
    "muranus": (5793951.0e9, 5e-6),
    "mneptune": (6835100.0e9, 5e-6),
    "mpluto": (869.6e9, 2e-3),
    "massist": (AU ** 3 / DAY ** 2, 1e-12),
}
G_SI = 6.6742e-11          # midpoint of CODATA 2014 / 2018
G_SI_TOL = 5e-5
KG = {"kg": 1.0, "g": 1e-3, "gram": 1e-3}

MASS_NAMES = list(KG) + list(GM)


def expected_G(l, t, m):
    L, T = LENGTH[l], TIME[t]
    tol = 3 * LENGTH_TOL.get(l, 0.0) + 2 * TIME_TOL.get(t, 0.0) + 64 * 2.0 ** -52
    if m in KG:
        return G_SI * KG[m] * T * T / L ** 3, tol + G_SI_TOL
    gm, mt = GM[m]
    return gm * T * T / L ** 3, tol + mt


def mass_in_unit(gm_phys, m):
    """A body with gravitational parameter gm_phys (m^3/s^2) expressed in mass unit m, with relative tolerance."""
    if m in KG:
        return gm_phys / G_SI / KG[m], G_SI_TOL
    gm, mt = GM[m]
    return gm_phys / gm, mt
