"""C01 oracle: driver for the harness-owned quad-precision reference integrator vf/chelpers/c01_refnbody.c.

The binary is compiled standalone (no REBOUND code or headers).  `selftest()` validates it against closed
forms (two-body Kepler both directions, Lagrange triangle, test-particle partition, Hill epicycle, forced
oscillator, softened energy) and, through the text interface, against an mpmath Kepler propagation.
"""
import hashlib
import json
import math
import os
import subprocess

VERIF = os.path.dirname(os.path.dirname(os.path.dirname(os.path.abspath(__file__))))
SRC = os.path.join(VERIF, "vf", "chelpers", "c01_refnbody.c")
TOL = 1e-26
SELFTEST_LIMIT = 1e-22


def _dir():
    h = hashlib.sha256(open(SRC, "rb").read()).hexdigest()[:12]
    return os.path.join(VERIF, ".build", "c01-ref-" + h)


def binary():
    d = _dir()
    exe = os.path.join(d, "c01_refnbody")
    if os.path.exists(exe):
        return exe
    os.makedirs(d, exist_ok=True)
    tmp = exe + ".tmp%d" % os.getpid()
    r = subprocess.run(["gcc", "-O2", "-o", tmp, SRC, "-lquadmath", "-lm"], capture_output=True, text=True)
    if r.returncode != 0:
        raise RuntimeError("c01_refnbody does not compile:\n" + r.stderr[-3000:])
    os.rename(tmp, exe)
    return exe


def _fmt(x):
    return float(x).hex()


def reference(spec, times, cache=False):
    """spec: {"mode": "nbody"|"hill", "G", "softening", "particles": [{m,x,..}], "N_active", "testparticle_type",
    "OMEGA", "OMEGAZ", "ode": {"w","c","k","u0","ud0"}|None, "t0"}.  times: monotonic list.
    Returns list (per time) of {"p": [[(hi,lo)*6] per particle], "u": [(hi,lo),(hi,lo)], "de": float}."""
    ps = spec["particles"]
    n = len(ps)
    na = spec.get("N_active")
    if na is None or na < 0:
        na = n
    ode = spec.get("ode")
    toks = [spec.get("mode", "nbody"), _fmt(spec.get("G", 1.0)), _fmt(spec.get("softening", 0.0)), str(n), str(na),
            str(int(spec.get("testparticle_type", 0))), _fmt(spec.get("OMEGA", 1.0)), _fmt(spec.get("OMEGAZ", 1.0))]
    if ode:
        toks += ["1", _fmt(ode["w"]), _fmt(ode["c"]), str(int(ode["k"])), _fmt(ode["u0"]), _fmt(ode["ud0"])]
    else:
        toks += ["0", _fmt(1.0), _fmt(0.0), "0", _fmt(0.0), _fmt(0.0)]
    toks.append(_fmt(TOL))
    for p in ps:
        toks += [_fmt(p.get(k, 0.0)) for k in ("m", "x", "y", "z", "vx", "vy", "vz")]
    toks += [_fmt(spec.get("t0", 0.0)), str(len(times))] + [_fmt(t) for t in times]
    text = " ".join(toks) + "\n"
    cpath = None
    if cache:
        cd = os.path.join(_dir(), "cache")
        os.makedirs(cd, exist_ok=True)
        cpath = os.path.join(cd, hashlib.sha256(text.encode()).hexdigest()[:24] + ".json")
        if os.path.exists(cpath):
            try:
                return json.load(open(cpath))
            except Exception:
                pass
    r = subprocess.run([binary()], input=text, capture_output=True, text=True, timeout=600)
    if r.returncode != 0:
        raise RuntimeError("c01_refnbody failed (%d): %s" % (r.returncode, r.stderr[-500:]))
    out = []
    lines = r.stdout.splitlines()
    i = 0
    while i < len(lines):
        assert lines[i].startswith("T ")
        i += 1
        P = []
        for _ in range(n):
            v = [float.fromhex(x) for x in lines[i].split()]
            P.append([[v[2 * c], v[2 * c + 1]] for c in range(6)])
            i += 1
        u = [float.fromhex(x) for x in lines[i].split()[1:]]
        i += 1
        e = lines[i].split()
        i += 1
        out.append({"p": P, "u": [[u[0], u[1]], [u[2], u[3]]], "de": float(e[1]), "steps": int(e[3]),
                    "dmin": float(e[7])})
    if len(out) != len(times):
        raise RuntimeError("c01_refnbody: %d of %d outputs" % (len(out), len(times)))
    if cpath:
        with open(cpath + ".tmp%d" % os.getpid(), "w") as f:
            json.dump(out, f)
        os.rename(cpath + ".tmp%d" % os.getpid(), cpath)
    return out


def diff(x, hl):
    """x - (hi+lo) evaluated without cancellation error (x - hi is exact for x within a factor 2 of hi)."""
    return (x - hl[0]) - hl[1]


def selftest():
    """Raises RuntimeError if the reference integrator disagrees with a closed form by more than 1e-22."""
    r = subprocess.run([binary(), "selftest"], capture_output=True, text=True, timeout=300)
    if r.returncode != 0:
        raise RuntimeError("c01_refnbody selftest failed to run: " + r.stderr[-500:])
    res = {}
    for l in r.stdout.splitlines():
        k, v = l.split()
        res[k] = float(v)
    need = {"kepler_forward", "kepler_backward", "kepler_energy_forward", "kepler_energy_backward", "lagrange",
            "testparticle_type0_passive", "testparticle_type1_momentum", "hill_epicycle", "oscillator_forced",
            "softened_energy"}
    if set(res) != need:
        raise RuntimeError("c01_refnbody selftest: unexpected output %r" % res)
    bad = {k: v for k, v in res.items() if not (v < SELFTEST_LIMIT)}
    if bad:
        raise RuntimeError("c01_refnbody selftest: closed forms not reproduced: %r" % bad)
    # through the text interface, against mpmath (classical elements + Newton on Kepler's equation)
    import mpmath as mp
    mp.mp.dps = 40
    G, m0, m1, a, e = 0.9, 1.0, 1e-3, 1.3, 0.45
    mu = mp.mpf(G) * (mp.mpf(m0) + mp.mpf(m1))
    rx = mp.mpf(a) * (1 - mp.mpf(e))
    vy = mp.sqrt(mu / mp.mpf(a) * (1 + mp.mpf(e)) / (1 - mp.mpf(e)))
    x1, v1 = float(rx), float(vy)      # the doubles handed to the integrator define the orbit
    rx, vy = mp.mpf(x1), mp.mpf(v1)
    a_ = 1 / (2 / rx - vy * vy / mu)
    e_ = 1 - rx / a_
    nmm = mp.sqrt(mu / a_ ** 3)
    spec = {"G": G, "particles": [{"m": m0}, {"m": m1, "x": x1, "vy": v1}]}
    for T in (7.25, -3.5):
        out = reference(spec, [T])[0]
        M = nmm * mp.mpf(T)
        E = mp.findroot(lambda E: E - e_ * mp.sin(E) - M, M)
        X = a_ * (mp.cos(E) - e_)
        Y = a_ * mp.sqrt(1 - e_ ** 2) * mp.sin(E)
        # star moves: positions are inertial with star initially at rest at origin -> barycentre drifts
        f1 = mp.mpf(m1) / (mp.mpf(m0) + mp.mpf(m1))
        # relative vector = p1 - p0
        P = out["p"]
        dx = (mp.mpf(P[1][0][0]) + mp.mpf(P[1][0][1])) - (mp.mpf(P[0][0][0]) + mp.mpf(P[0][0][1]))
        dy = (mp.mpf(P[1][1][0]) + mp.mpf(P[1][1][1])) - (mp.mpf(P[0][1][0]) + mp.mpf(P[0][1][1]))
        err = max(abs(dx - X), abs(dy - Y))
        if not err < SELFTEST_LIMIT:
            raise RuntimeError("c01_refnbody vs mpmath Kepler at T=%r: error %s" % (T, mp.nstr(err, 5)))
        # barycentre: y_com(T) = f1*vy*T
        ycom = (mp.mpf(m0) * (mp.mpf(P[0][1][0]) + mp.mpf(P[0][1][1])) + mp.mpf(m1) * (mp.mpf(P[1][1][0]) + mp.mpf(P[1][1][1]))) / (mp.mpf(m0) + mp.mpf(m1))
        if not abs(ycom - f1 * vy * mp.mpf(T)) < SELFTEST_LIMIT:
            raise RuntimeError("c01_refnbody: barycentre drift wrong")
    res["mpmath_kepler"] = float(err)
    return res
