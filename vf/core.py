"""Runner core: sub-checks, jobs in forked children, evidence, replay files, known findings.

A property module (vf/props/cXX.py) defines
    PROPERTY = "CXX"; LEVEL = "exploration"; RULE = "..."; ASSUMPTIONS = [...]
    def subs(tier): return [Sub(...), ...]
Each Sub turns generated *cases* (JSON-able values) into verdicts through fn(case, ctx):
fn raises Violation when the property is broken on that case.  Anything else that escapes
fn is a harness error (exit 2), never a violation.
"""
import hashlib
import importlib
import json
import multiprocessing as mp
import os
import shutil
import signal
import sys
import time
import traceback

VERIF = os.path.dirname(os.path.dirname(os.path.abspath(__file__)))
SCRATCH = os.path.join(VERIF, ".scratch")
OUT = os.environ.get("VERIF_OUT", VERIF)   # evidence/ and replays/ go here (sensitivity runs redirect it)


class Violation(Exception):
    def __init__(self, msg, **details):
        Exception.__init__(self, msg)
        self.msg = msg
        self.details = details


class Sub:
    def __init__(self, name, fn, strategy=None, cases=None, quick=100, thorough=None,
                 shards_quick=1, shards_thorough=8, variant="opt", timeout_quick=420,
                 timeout_thorough=3600, exhaustive=False, weight=1, journal=True):
        self.name = name
        self.fn = fn
        self.strategy = strategy      # hypothesis strategy or callable(tier)->strategy
        self.cases = cases            # callable(tier) -> iterable of cases (enumeration)
        self.quick = quick
        self.thorough = thorough if thorough is not None else quick * 20
        self.shards_quick = shards_quick
        self.shards_thorough = shards_thorough
        self.variant = variant
        self.timeout_quick = timeout_quick
        self.timeout_thorough = timeout_thorough
        self.exhaustive = exhaustive
        self.weight = weight
        self.journal = journal


def case_hash(case):
    return hashlib.sha1(json.dumps(case, sort_keys=True, default=repr).encode()).hexdigest()[:16]


def brief(case, limit=1500):
    s = json.dumps(case, sort_keys=True, default=repr)
    if len(s) <= limit:
        return case
    return s[:limit] + "...(truncated, %d chars)" % len(s)


def load_findings():
    p = os.path.join(VERIF, "known_findings.json")
    if not os.path.exists(p):
        return []
    return json.load(open(p)).get("findings", [])


class Ctx:
    """Per-job context handed to fn."""

    def __init__(self, prop, sub, tier, seed, shard, findings, scratch):
        self.prop = prop
        self.sub = sub
        self.tier = tier
        self.seed = seed
        self.shard = shard
        self.scratch = scratch
        self._open = {f["key"] for f in findings if f["property"] == prop and f["status"] == "open"}
        self._open |= {k for k in os.environ.get("VERIF_ASSUME_OPEN", "").split(",") if k}   # development aid
        self.ignore_findings = False
        self.evaluations = 0
        self.classes = {}
        self.nontrivial_hashes = set()
        self.samples = []
        self._sample_classes = set()
        self.excluded_known = {}
        self.skipped = {}
        self.stats = {}
        self._cur_nontrivial = False
        self._cur_classes = []

    # --- API for fn -----------------------------------------------------------------
    def cls(self, name):
        self.classes[name] = self.classes.get(name, 0) + 1
        self._cur_classes.append(name)

    def nontrivial(self, flag=True):
        if flag:
            self._cur_nontrivial = True

    def skip(self, reason):
        self.skipped[reason] = self.skipped.get(reason, 0) + 1

    def finding_open(self, key):
        return (not self.ignore_findings) and key in self._open

    def excluded(self, key):
        self.excluded_known[key] = self.excluded_known.get(key, 0) + 1

    def stat_max(self, name, value):
        try:
            v = float(value)
        except Exception:
            return
        if v != v:
            return
        if name not in self.stats or v > self.stats[name]:
            self.stats[name] = v

    # --- used by the runner -----------------------------------------------------------
    def begin(self, case):
        self._cur_nontrivial = False
        self._cur_classes = []

    def end(self, case):
        self.evaluations += 1
        if self._cur_nontrivial:
            self.nontrivial_hashes.add(case_hash(case))
        new_cls = [c for c in self._cur_classes if c not in self._sample_classes]
        if len(self.samples) < 3 or (new_cls and len(self.samples) < 10):
            self.samples.append({"sub": self.sub, "case": brief(case), "classes": list(self._cur_classes),
                                 "nontrivial": self._cur_nontrivial})
            self._sample_classes.update(self._cur_classes)

    def result(self):
        return {"evaluations": self.evaluations, "classes": self.classes,
                "nontrivial": sorted(self.nontrivial_hashes), "samples": self.samples,
                "excluded_known": self.excluded_known, "skipped": self.skipped, "stats": self.stats}


def derive_seed(seed, sub, shard):
    h = hashlib.sha256(("%d/%s/%d" % (seed, sub, shard)).encode()).digest()
    return int.from_bytes(h[:4], "big")


SHRINK_BUDGET = {"quick": 45.0, "thorough": 240.0}


def _run_job(modname, subname, tier, seed, shard, nshards, outpath, journal):
    """Child process body."""
    res = {"sub": subname, "shard": shard, "violation": None, "error": None}
    t0 = time.time()
    scratch = os.path.join(SCRATCH, "job-%d" % os.getpid())
    os.makedirs(scratch, exist_ok=True)
    ctx = None
    if os.environ.get("VERIF_DUMP_AFTER"):      # debugging aid only: the watchdog thread can itself crash long jobs
        try:
            import faulthandler
            faulthandler.dump_traceback_later(float(os.environ["VERIF_DUMP_AFTER"]), exit=False)
        except Exception:
            pass
    try:
        from . import build
        mod = importlib.import_module(modname)
        sub = [s for s in mod.subs(tier) if s.name == subname][0]
        ov = os.environ.get("VERIF_VARIANT_OVERRIDE")
        if ov and sub.variant != "opt":
            res["sub"] = subname
            res["skipped_job"] = "sub needs variant %s; not run under --sanitize" % sub.variant
            with open(outpath, "w") as f:
                json.dump(res, f)
            os._exit(0)
        if build.activate(ov or (sub.variant if sub.variant in ("opt", "avx512") else "opt")) is None:
            raise RuntimeError("variant %s not available on this machine" % sub.variant)
        ctx = Ctx(mod.PROPERTY, subname, tier, seed, shard, load_findings(), scratch)
        jf = open(journal, "w") if (journal and (sub.journal or os.environ.get("VERIF_FORCE_JOURNAL"))) else None
        state = {"fail": None, "t_fail": None}

        def execute(case):
            if state["t_fail"] is not None and time.time() - state["t_fail"] > SHRINK_BUDGET[tier]:
                return  # shrink budget exhausted: let hypothesis finish fast
            if jf:
                jf.seek(0)
                jf.truncate()
                jf.write(json.dumps(case, default=repr))
                jf.flush()
            ctx.begin(case)
            try:
                sub.fn(case, ctx)
            except Violation as v:
                if state["t_fail"] is None:
                    state["t_fail"] = time.time()
                state["fail"] = (case, v.msg, v.details)
                raise
            finally:
                if state["fail"] is None:
                    ctx.end(case)

        n = sub.quick if tier == "quick" else sub.thorough
        if sub.cases is not None:
            for i, case in enumerate(sub.cases(tier)):
                if i % nshards != shard:
                    continue
                try:
                    execute(case)
                except Violation:
                    break
        else:
            import hypothesis
            from hypothesis import HealthCheck, given, settings
            strat = sub.strategy(tier) if callable(sub.strategy) and not hasattr(sub.strategy, "example") else sub.strategy
            per = max(1, n // nshards) + (1 if shard > 0 else 0)

            @hypothesis.seed(derive_seed(seed, subname, shard))
            @settings(max_examples=per, database=None, deadline=None, report_multiple_bugs=False,
                      derandomize=False, suppress_health_check=list(HealthCheck),
                      print_blob=False)
            @given(strat)
            def test(case):
                state["calls"] = state.get("calls", 0) + 1
                if shard > 0 and state["calls"] == 1:
                    return      # Hypothesis starts every run with the minimal example: shard 0 covers it
                execute(case)

            try:
                test()
            except Violation:
                pass
            except BaseException as e:  # Flaky etc. after the shrink budget ran out
                if state["fail"] is None:
                    raise
        if state["fail"] is not None:
            case, msg, details = state["fail"]
            res["violation"] = {"sub": subname, "case": case, "message": msg, "details": details}
    except BaseException:
        res["error"] = traceback.format_exc()
    if ctx is not None:
        res.update(ctx.result())
    res["wall_s"] = time.time() - t0
    shutil.rmtree(scratch, ignore_errors=True)
    with open(outpath + ".tmp", "w") as f:
        json.dump(res, f, default=repr)
    os.rename(outpath + ".tmp", outpath)
    os._exit(0)


def run_single(modname, subname, case, tier="quick", ignore_findings=False):
    """Run one case in a forked child; returns ("pass"|"violation"|"crash"|"error", info)."""
    os.makedirs(SCRATCH, exist_ok=True)
    out = os.path.join(SCRATCH, "single-%d-%s.json" % (os.getpid(), case_hash([subname, case])))
    pid = os.fork()
    if pid == 0:
        r = {"status": "pass", "info": None}
        scratch = os.path.join(SCRATCH, "job-%d" % os.getpid())
        try:
            os.makedirs(scratch, exist_ok=True)
            from . import build
            mod = importlib.import_module(modname)
            sub = [s for s in mod.subs(tier) if s.name == subname][0]
            build.activate(sub.variant if sub.variant in ("opt", "avx512") else "opt")
            ctx = Ctx(mod.PROPERTY, subname, tier, 0, 0, load_findings(), scratch)
            ctx.ignore_findings = ignore_findings
            ctx.begin(case)
            try:
                sub.fn(case, ctx)
            except Violation as v:
                r = {"status": "violation", "info": {"message": v.msg, "details": v.details}}
        except BaseException:
            r = {"status": "error", "info": traceback.format_exc()}
        shutil.rmtree(scratch, ignore_errors=True)
        with open(out, "w") as f:
            json.dump(r, f, default=repr)
        os._exit(0)
    deadline = time.time() + 600
    while True:
        p, st = os.waitpid(pid, os.WNOHANG)
        if p:
            break
        if time.time() > deadline:
            os.kill(pid, signal.SIGKILL)
            os.waitpid(pid, 0)
            return "crash", {"message": "no return within 600 s (killed)"}
        time.sleep(0.01)
    if os.path.exists(out):
        r = json.load(open(out))
        os.unlink(out)
        return r["status"], r["info"]
    sig = os.WTERMSIG(st) if os.WIFSIGNALED(st) else None
    return "crash", {"message": "child died: signal %s status %s" % (sig, st)}


def write_replay(prop, viol, seed, tier):
    d = os.path.join(OUT, "replays", prop)
    os.makedirs(d, exist_ok=True)
    rec = {"property": prop, "sub": viol["sub"], "case": viol["case"], "message": viol["message"],
           "details": viol.get("details"), "seed": seed, "tier": tier}
    p = os.path.join(d, "%s-%s.json" % (viol["sub"], case_hash(viol["case"])[:8]))
    with open(p, "w") as f:
        json.dump(rec, f, indent=1, default=repr)
    return p


def run_property(modname, tier, seed, only=None, jobs=16):
    """Returns exit code."""
    t0 = time.time()
    from . import build
    mod = importlib.import_module(modname)
    prop = mod.PROPERTY
    os.makedirs(SCRATCH, exist_ok=True)
    try:
        build.build("opt")
        for v in getattr(mod, "VARIANTS", []):
            build.build(v)
        if hasattr(mod, "prepare"):
            mod.prepare(tier)
    except Exception:
        traceback.print_exc()
        print("HARNESS-ERROR property=%s build failed" % prop)
        return 2
    subs = [s for s in mod.subs(tier) if only is None or s.name in only]
    findings = [f for f in load_findings() if f["property"] == prop]
    violations = []
    known_lines = []
    errors = []

    # 1. regression corpus + pinned reproductions of findings
    corpus_dir = os.path.join(VERIF, "corpus", prop)
    corpus_n = 0
    subnames = {s.name for s in mod.subs(tier)}
    if os.path.isdir(corpus_dir) and only is None:
        by_repro = {f.get("repro"): f for f in findings if f.get("repro")}
        for fn in sorted(os.listdir(corpus_dir)):
            if not fn.endswith(".json"):
                continue
            rel = "corpus/%s/%s" % (prop, fn)
            rec = json.load(open(os.path.join(corpus_dir, fn)))
            if rec["sub"] not in subnames:
                errors.append("corpus file %s names unknown sub %s" % (rel, rec["sub"]))
                continue
            f = by_repro.get(rel)
            is_open = f is not None and f["status"] == "open"
            status, info = run_single(modname, rec["sub"], rec["case"], tier, ignore_findings=True)
            corpus_n += 1
            if status == "error":
                errors.append("corpus %s: %s" % (rel, info))
            elif status in ("violation", "crash"):
                if is_open:
                    known_lines.append("KNOWN-FINDING: property=%s %s [%s]" % (prop, f["what"], f["key"]))
                else:
                    violations.append({"sub": rec["sub"], "case": rec["case"],
                                       "message": "regression corpus %s fails: %s" % (rel, (info or {}).get("message")),
                                       "details": (info or {}).get("details")})
            else:
                if is_open:
                    print("NOTE property=%s finding %s no longer reproduces on this tree" % (prop, f["key"]))

    # 2. generated search
    joblist = []
    for s in subs:
        ns = s.shards_quick if tier == "quick" else s.shards_thorough
        for sh in range(ns):
            joblist.append((s, sh, ns))
    merged = {}
    running = []
    pending = list(joblist)
    results = []
    ctxm = mp.get_context("fork")

    def start(job, journal=False):
        s, sh, ns = job
        out = os.path.join(SCRATCH, "res-%d-%s-%d.json" % (os.getpid(), s.name, sh))
        jpath = out + ".journal"
        if journal:
            os.environ["VERIF_FORCE_JOURNAL"] = "1"
        else:
            os.environ.pop("VERIF_FORCE_JOURNAL", None)
        if os.path.exists(out):
            os.unlink(out)
        p = ctxm.Process(target=_run_job, args=(modname, s.name, tier, seed, sh, ns, out, jpath))
        p.start()
        return {"job": job, "proc": p, "out": out, "journal": jpath, "t0": time.time(), "is_journal": journal}

    while pending or running:
        while pending and len(running) < jobs:
            running.append(start(pending.pop(0)))
        time.sleep(0.05)
        for r in list(running):
            s, sh, ns = r["job"]
            tmo = s.timeout_quick if tier == "quick" else s.timeout_thorough
            if r["proc"].is_alive():
                if time.time() - r["t0"] > tmo:
                    r["proc"].kill()
                    r["proc"].join()
                    running.remove(r)
                    hp = ""
                    try:
                        case = json.load(open(r["journal"]))
                        hd = os.path.join(OUT, "replays", prop)
                        os.makedirs(hd, exist_ok=True)
                        hp = os.path.join(hd, "timeout-%s-%s.json" % (s.name, case_hash(case)[:8]))
                        json.dump({"property": prop, "sub": s.name, "case": case,
                                   "message": "job killed by wall budget while executing this case (not a verdict)"},
                                  open(hp, "w"), indent=1, default=repr)
                    except Exception:
                        pass
                    results.append({"sub": s.name, "shard": sh,
                                    "inconclusive": "job exceeded %ds wall budget; killed (last case: %s)" % (tmo, hp)})
                continue
            r["proc"].join()
            running.remove(r)
            if os.path.exists(r["out"]):
                results.append(json.load(open(r["out"])))
                os.unlink(r["out"])
                if r["journal"] and os.path.exists(r["journal"]):
                    os.unlink(r["journal"])
            else:
                code = r["proc"].exitcode
                have_j = r["journal"] and os.path.exists(r["journal"]) and os.path.getsize(r["journal"]) > 0
                if not r["is_journal"] and not have_j:
                    running.append(start(r["job"], journal=True))  # re-run, journaling each case
                else:
                    case = None
                    try:
                        case = json.load(open(r["journal"]))
                    except Exception:
                        pass
                    if r["journal"] and os.path.exists(r["journal"]):
                        os.unlink(r["journal"])
                    if case is not None:
                        results.append({"sub": s.name, "shard": sh, "violation": {
                            "sub": s.name, "case": case,
                            "message": "process died (exit code %s) while executing this case" % code,
                            "details": {"exitcode": code}}})
                    else:
                        results.append({"sub": s.name, "shard": sh,
                                        "error": "child died with %s before any case" % code})

    # 3. merge
    per_sub = {}
    nontriv = set()
    samples = []
    classes = {}
    excluded = {}
    skipped = {}
    stats = {}
    inconclusive = []
    evaluations = corpus_n
    for r in results:
        ps = per_sub.setdefault(r["sub"], {"evaluations": 0, "nontrivial": 0, "wall_s": 0.0})
        if r.get("inconclusive"):
            inconclusive.append("%s[%s]: %s" % (r["sub"], r["shard"], r["inconclusive"]))
            continue
        if r.get("error"):
            errors.append("%s[%s]: %s" % (r["sub"], r["shard"], r["error"]))
        if r.get("violation"):
            violations.append(r["violation"])
            evaluations += 1
            samples.append({"sub": r["sub"], "case": brief(r["violation"]["case"]), "classes": ["VIOLATION"],
                            "nontrivial": True})
        ps["evaluations"] += r.get("evaluations", 0)
        ps["wall_s"] = round(ps["wall_s"] + r.get("wall_s", 0.0), 2)
        evaluations += r.get("evaluations", 0)
        for h in r.get("nontrivial", []):
            nontriv.add(r["sub"] + ":" + h)
        ps["nontrivial"] = len([1 for h in nontriv if h.startswith(r["sub"] + ":")])
        for k, v in r.get("classes", {}).items():
            classes[r["sub"] + "/" + k] = classes.get(r["sub"] + "/" + k, 0) + v
        for k, v in r.get("excluded_known", {}).items():
            excluded[k] = excluded.get(k, 0) + v
        for k, v in r.get("skipped", {}).items():
            skipped[r["sub"] + "/" + k] = skipped.get(r["sub"] + "/" + k, 0) + v
        for k, v in r.get("stats", {}).items():
            kk = r["sub"] + "/" + k
            stats[kk] = max(stats.get(kk, v), v)
        if r.get("shard", 0) == 0:
            samples.extend(r.get("samples", [])[:6])

    # dedupe violations by (sub, message head)
    seen = set()
    uniq = []
    for v in violations:
        k = (v["sub"], v["message"][:60])
        if k not in seen:
            seen.add(k)
            uniq.append(v)
    violations = uniq

    declared = getattr(mod, "CLASSES", [])
    for c in declared:
        classes.setdefault(c, 0)

    ev = {
        "property_id": prop, "tier": tier, "seed": seed, "level": getattr(mod, "LEVEL", "exploration"),
        "coverage": {
            "evaluations": evaluations,
            "distinct_nontrivial": len(nontriv),
            "rule": mod.RULE,
            "samples": samples[:40],
            "exhaustive": bool(subs) and all(s.exhaustive for s in subs),
            "per_subcheck": per_sub,
            "classes": dict(sorted(classes.items())),
            "excluded_known": excluded,
            "skipped": skipped,
            "stats": stats,
            "inconclusive": inconclusive,
            "corpus_replayed": corpus_n,
            "known_findings_reported": known_lines,
        },
        "assumptions": list(getattr(mod, "ASSUMPTIONS", [])),
        "wall_s": round(time.time() - t0, 2),
        "violations": len(violations),
    }
    if hasattr(mod, "extra_evidence"):
        try:
            ev["coverage"].update(mod.extra_evidence(tier))
        except Exception:
            errors.append("extra_evidence: " + traceback.format_exc())
    if only is None:
        os.makedirs(os.path.join(OUT, "evidence"), exist_ok=True)
        p = os.path.join(OUT, "evidence", prop + ".json")
        with open(p + ".tmp", "w") as f:
            json.dump(ev, f, indent=1, default=repr)
        os.rename(p + ".tmp", p)
        _validate(p, errors)

    for l in known_lines:
        print(l)
    for s in inconclusive:
        print("INCONCLUSIVE property=%s %s" % (prop, s))
    print("SUMMARY property=%s tier=%s seed=%d evaluations=%d distinct_nontrivial=%d violations=%d wall=%.1fs"
          % (prop, tier, seed, evaluations, len(nontriv), len(violations), time.time() - t0))
    for name, ps in sorted(per_sub.items()):
        print("  sub %-28s evals=%-7d nontrivial=%-7d cpu=%.1fs" % (name, ps["evaluations"], ps["nontrivial"], ps["wall_s"]))
    if errors:
        for e in errors:
            print("HARNESS-ERROR property=%s %s" % (prop, e))
    if violations:
        for v in violations:
            path = write_replay(prop, v, seed, tier)
            print("VIOLATION property=%s replay=%s" % (prop, path))
            print("  sub=%s: %s" % (v["sub"], v["message"]))
        return 1
    if errors:
        return 2
    return 0


def _validate(path, errors):
    try:
        sys.path.insert(0, os.path.join(VERIF, ".deps")) if os.path.join(VERIF, ".deps") not in sys.path else None
        import jsonschema
        sch = os.path.join(VERIF, "vf", "EVIDENCE.schema.json")
        if os.path.exists(sch):
            jsonschema.validate(json.load(open(path)), json.load(open(sch)))
    except ImportError:
        pass
    except Exception as e:
        errors.append("evidence does not validate: %s" % str(e)[:500])


def run_replay(modname, path):
    mod = importlib.import_module(modname)
    from . import build
    build.build("opt")
    for v in getattr(mod, "VARIANTS", []):
        build.build(v)
    if hasattr(mod, "prepare"):
        mod.prepare("quick")
    rec = json.load(open(path))
    status, info = run_single(modname, rec["sub"], rec["case"], "quick", ignore_findings=True)
    if status in ("violation", "crash"):
        print("VIOLATION property=%s replay=%s" % (mod.PROPERTY, path))
        print("  sub=%s: %s" % (rec["sub"], (info or {}).get("message")))
        if info and info.get("details"):
            print("  details: %s" % json.dumps(info["details"], default=repr)[:3000])
        return 1
    if status == "error":
        print("HARNESS-ERROR %s" % info)
        return 2
    print("replay passes: property=%s %s" % (mod.PROPERTY, path))
    return 0
