#!/bin/bash
# usage: tools/batch_seeds.sh C08b C04b ...   -> verifies each seed and runs the property's check against it; log in /tmp/batch_seeds.log
cd /verif
for id in "$@"; do
  prop=${id:0:3}
  echo "##### $id verify" 
  tools/verify_seed.sh $id $prop 2>&1 | grep -v conda | grep "rc=\|PASS\|FAIL\|passed\|APPLY\|BUILD" | head -8
  echo "##### $id sens"
  tools/sens.py $prop --patch seeded/$id/patch.diff 2>&1 | grep "SENS\|sub=" | tail -3 | cut -c1-260
done
echo "##### batch done"
