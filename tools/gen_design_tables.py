#!/usr/bin/env python3
"""Regenerates the machine-derived tables of DESIGN.md (between AUTO markers) from known_findings.json and
seeded/*/meta.json."""
import json, os, re, glob
V = os.path.dirname(os.path.dirname(os.path.abspath(__file__)))
F = json.load(open(os.path.join(V, "known_findings.json")))["findings"]


def esc(s):
    return str(s).replace("|", "\\|").replace("\n", " ")


def fixes():
    out = ["| Prop | What failed (input / history) | `fix:` commit subject | Reproduction |", "|---|---|---|---|"]
    for f in sorted([f for f in F if f["status"] == "fixed"], key=lambda f: f["property"]):
        out.append("| %s | %s | %s | `%s` |" % (f["property"], esc(f["what"]), (f.get("commit_hash", "") + " " + esc(f["commit"].replace("fix: ", ""))).strip(), f.get("repro", "")))
    return "\n".join(out)


def opens():
    out = ["| Prop | Key | What fails | Signature excluded from assertion | Reproduction |", "|---|---|---|---|---|"]
    for f in sorted([f for f in F if f["status"] == "open"], key=lambda f: f["property"]):
        out.append("| %s | `%s` | %s | %s | `%s` |" % (f["property"], f["key"], esc(f["what"]), esc(f.get("signature", "")), f.get("repro", "")))
    return "\n".join(out)


def seeds():
    out = ["| Seed | Prop | Change (independent agent, no access to /verif) | Needs to manifest | Result | Note |", "|---|---|---|---|---|---|"]
    for d in sorted(glob.glob(os.path.join(V, "seeded", "*", "meta.json"))):
        m = json.load(open(d))
        c = m.get("coordinator", {})
        out.append("| %s | %s | %s | %s | %s | %s |" % (os.path.basename(os.path.dirname(d)), c.get("property", m.get("property")),
                   esc(m.get("summary", ""))[:400], esc(m.get("needs", ""))[:300], c.get("check_result", "?"), esc(c.get("note", ""))[:500]))
    return "\n".join(out)


MISSED_WHY = {
    "C01/eos-lf4-coefficient-digits": "5e-10 change of one LF4 coefficient: changes only the error constant, below the measurable window (stated under 'cannot reach')",
    "C07/corruption-check-skipped": "weakened corruption test on append matters only for a few cut offsets; restart is strided in the quick tier (all offsets in thorough)",
    "C05/input-nallocated-not-set": "not visible in single-snapshot round trips (C05's domain); CAUGHT by the C06 check (history skeletons: array shrinks between snapshots)",
    "C06/blob-index-not-incremented": "equivalent for the property: no reader uses the trailer's index member; count, times and content of every snapshot are unchanged",
    "C06/diff-against-previous-size": "a shrunken field is compared over the old length (out-of-bounds read, result still 'differs'): no behavioural change in the plain build; CAUGHT by the `--sanitize` leg of the thorough command (ASan abort in sub history)",
    "C07/offset-check-disabled": "equivalent under the prefix-cut crash model: the reader's offset checksum is redundant when files are only ever truncated",
}


def mutants():
    sp = os.path.join(V, "mutants", "STATUS.json")
    if not os.path.exists(sp):
        return "(run tools/run_mutants.py)"
    st = json.load(open(sp))
    per = {}
    for k, v in st.items():
        pid = k.split("/")[0]
        per.setdefault(pid, []).append((k, v))
    out = ["| Prop | Hand-written mutants | Caught (by generation, not only corpus) | Not caught |", "|---|---|---|---|"]
    for pid in sorted(per):
        items = per[pid]
        caught = [k for k, v in items if v["result"] == "CAUGHT"]
        corpus_only = [k for k, v in items if v["result"] == "CAUGHT" and v.get("corpus_only")]
        missed = [k for k, v in items if v["result"] != "CAUGHT"]
        mtxt = "; ".join("`%s` (%s)" % (k.split("/")[1], MISSED_WHY.get(k, v["result"])) for k, v in items if v["result"] != "CAUGHT") or "-"
        out.append("| %s | %d | %d%s | %s |" % (pid, len(items), len(caught), (" (%d only via corpus)" % len(corpus_only)) if corpus_only else "", mtxt))
    tot = sum(len(v) for v in per.values())
    totc = sum(1 for v in st.values() if v["result"] == "CAUGHT")
    out.append("| all | %d | %d | |" % (tot, totc))
    return "\n".join(out)


def main():
    p = os.path.join(V, "DESIGN.md")
    s = open(p).read()
    for name, fn in (("fixes", fixes), ("open", opens), ("seeds", seeds), ("mutants", mutants)):
        b, e = "<!-- BEGIN AUTO:%s -->" % name, "<!-- END AUTO:%s -->" % name
        if b in s:
            s = s[:s.index(b) + len(b)] + "\n" + fn() + "\n" + s[s.index(e):]
    open(p, "w").write(s)
    print("tables regenerated")


if __name__ == "__main__":
    main()
