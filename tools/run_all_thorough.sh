#!/bin/bash
# Runs the registered thorough command of every check (or of the ids given), one after the other,
# and prints one RESULT line per check: exit code, wall time, summary lines.
cd "$(dirname "$0")/.."
ids=("$@")
if [ ${#ids[@]} -eq 0 ]; then
  ids=($(python3 -c "import json;print(' '.join(c['property_id'] for c in json.load(open('MANIFEST.json'))['checks']))"))
fi
for id in "${ids[@]}"; do
  cmd=$(python3 -c "import json,sys;print([c['thorough_cmd'] for c in json.load(open('MANIFEST.json'))['checks'] if c['property_id']=='$id'][0])")
  t0=$(date +%s)
  out=$(bash -c "$cmd" 2>&1)
  rc=$?
  t1=$(date +%s)
  echo "RESULT $id rc=$rc wall=$((t1-t0))s"
  echo "$out" | grep "SUMMARY\|VIOLATION\|INCONCL\|HARNESS\|KNOWN\|  sub " | cut -c1-400
done
echo "ALL DONE"
