#!/venv/bin/python
"""Regenerates MANIFEST.json from the table below (keeps it valid and consistent)."""
import json
import os

VERIF = os.path.dirname(os.path.dirname(os.path.abspath(__file__)))
BASELINE = ("cd /repo && /venv/bin/python -m pytest -ra -q -p no:cacheprovider --timeout=900 "
            "--continue-on-collection-errors")

CHECKS = {
    "C06": dict(sanitize=True, level="exploration", design="1/C06",
                technique="property-based testing: generated operation histories + heartbeat cadence model, oracle = own parser of the binary format (round trip against recorded live state)",
                text="Hypothesis-generated histories (add/remove/remove-all/switch/reset integrator/settings/variations) with manual snapshots, and automatic interval/step cadence runs; every loaded snapshot's field map must equal the map recorded from the live simulation when it was written; count, times and cadence checked against a model of the documented rule. Exploration: no counterexample among the generated histories counted in evidence.",
                note="Trusts: reb_simulation_save_to_stream as the observation of live state (content parsed by the harness's own format parser), Python heartbeat as observation of step boundaries. Pointer members, padding, walltime and the callbacks-used flag are not state."),
    "C05": dict(sanitize=True, level="exploration", design="1/C05",
                technique="property-based testing: generated simulations x option lattice x save method (file/pickle/bytes/copy) round trip + differential continuation of original vs restored",
                text="Hypothesis-generated simulations over the documented option lattice with every documented user-settable option drawn non-default, advanced to generated save points (unsynchronised, after mergers, adaptive mid-run, variational/MEGNO), restored by four routes, callbacks re-attached by name; persisted field maps must be identical, every set option must read back, and original and restored must stay bitwise equal over a generated continuation. Exploration: no counterexample among the cases counted in evidence.",
                note="Trusts the harness's own parser of the binary format and the ctypes mirror for reading options back (C18 checks the mirror). Pointer members, padding, walltime, the callbacks-used flag and never-assigned members of ri_whfast.p_jh (ax..az, r, last_collision, hash) are not persisted quantities. TRACE with dt<0 is skipped (known finding under C08)."),
    "C17": dict(sanitize=True, level="exploration", design="1/C17",
                technique="property-based testing: generated states; copy/pickle/snapshot equality + interleaved differential evolution; exhaustive per-state single-field mutation through the exported descriptor table against compare",
                text="For generated states (all integrators mid-run, unsynchronised, variational/MEGNO, mergers, tree) a copy, pickle, byte stream and file snapshot must compare equal to the source in both argument orders, stay bitwise equal under a generated interleaving of operations on copy and source, and operations on one must leave the other's field map untouched. For every persisted field present in a state (descriptor list enumerated per state) a one-bit / one-element / shorter / absent mutation of a copy must be reported by compare, walltime fields must not; random public-API edits must be reported iff the harness's own field maps differ. Exploration over generated states; the field enumeration is complete per state.",
                note="Trusts the exported descriptor table for offsets and the harness's own format parser as the definition of persisted content. Callbacks are re-attached on the copy before comparing (the callbacks-used flag is persisted). Numeric (not bit) equality of doubles is accepted from compare: -0.0 vs 0.0 is not counted as a difference, NaN states are not generated. With a tree the particle order is not part of the state."),
    "C07": dict(level="fault_enumeration", design="1/C07",
                technique="fault enumeration over generated archives: every byte offset of every write (initial file, torn 12-byte trailer patch, appended delta) as a crash image; oracle = uninterrupted run's snapshots (own format parser) + restart differential",
                text="For Hypothesis-generated uninterrupted runs (manual and automatic cadence, bit-wise restartable integrators, structural edits between snapshots) the file image after each write is recorded and EVERY prefix cut of every write is materialised (exhaustive per archive, ~5000 images each). Each image is opened through the Python class and both C entry points in a contained worker: no crash, an error iff no snapshot is complete, otherwise exactly the completed snapshots with contents equal to the uninterrupted run; restart from the last exposed snapshot with the same cadence must reproduce the uninterrupted archive (every offset in the thorough tier, a stride plus all torn-patch/END cuts in quick).",
                note="Crash model = prefix of one write's bytes (plus the 'append landed, patch did not' reordering class for the read checks only); no arbitrary corruption. Images are computed from the before/after file images (verified to differ only in the trailer patch and the tail). A cut inside the final 12-byte trailer may expose k or k+1 snapshots. Under this model the reader's offset checksum is redundant (mutant offset-check-disabled is equivalent)."),
    "C02": dict(level="exploration", design="1/C02",
                technique="Hypothesis generators + independent high-precision O(N^2) reference (numpy longdouble / mpmath) + geometric octree predictor + metamorphic two-route WHFast step + two-part force identities",
                text="No counterexample among ~9.5k generated configurations per quick run: every gravity routine of the default build (BASIC, COMPENSATED, JACOBI, TREE, MERCURIUS and TRACE splittings) reproduces an independently written pairwise reference to (n_terms+16)*eps*sum|terms| across N (0..200), N_active, testparticle_type, gravity_ignore_terms, softening, G, ghost boxes and shear; TREE with theta>0 equals the Barnes-Hut sum predicted from a geometric octree and obeys the multipole bound; the MERCURIUS/TRACE parts add up to the full force; sum(m a)=0 when all active. Three documented-semantics deviations of TREE/JACOBI are open known findings.",
                note="Trusts numpy longdouble and mpmath, the specification read from docs/simulationvariables.md and the property text, the ctypes mirror for integrator internals (dcrit, encounter maps, K masks) and reb_boundary_get_ghostbox for the shear representative (congruence checked). OPENMP/MPI/QUADRUPOLE builds not covered. Opening decisions within rounding of the threshold are skipped and counted."),
    "C12": dict(level="exploration", design="1/C12",
                technique="Hypothesis-generated particle arrays through ctypes + mpmath linear-map oracle written from the coordinate definitions + round trip + variant agreement",
                text="No counterexample among ~6.8k generated particle sets per quick run (x4 coordinate systems): the forward maps equal the textbook definitions of Jacobi / democratic heliocentric / WHDS / barycentric coordinates with slot 0 = total active mass and centre of mass; inverse(forward) returns positions and velocities to 4(N+8)*eps*(|A^-1| fwd)*max|x|; pos / posvel / acc variants agree; the MERCURIUS/TRACE heliocentric shifts and move_to_hel/com behave as defined, for any N_active, zero-mass bodies and mass ratios to 1e-12. One open known finding (Jacobi inverse recovers mass sums by subtraction).",
                note="Trusts mpmath and the harness's transcription of the coordinate definitions; domain m0>0; the output array of an inverse carries the masses; sentinel-filled output arrays detect unwritten members."),
    "C14": dict(level="exploration", design="1/C14",
                technique="model-based PBT of add/remove/hash histories through the C API, the Python container and an ASan/UBSan C driver, plus a coverage-guided libFuzzer campaign with the model inside the target",
                text="Generated operation histories in three variants (plain, box+tree gravity, MERCURIUS) are executed through the C API, the Python particles container and a sanitizer-instrumented C driver, each compared after every operation with a list model of (tag, hash) and N_active; invalid requests must fail and leave the serialised state byte-identical; lookups return a particle carrying the key iff the model holds one. A coverage-guided libFuzzer campaign explores the same byte language with the model inside the target. No counterexample among the counted histories.",
                note="Trusts sa_format + save_to_stream as the state observation and clang ASan/UBSan (minus nonnull-attribute on qsort(NULL,0) and float-divide-by-zero). The N_active rule is asserted only for sorted removal and remove-all (the documented rule); among duplicates any particle carrying the hash may be returned. Mid-step removal (encounter-map bookkeeping) is not reached."),
    "C18": dict(level="exploration", design="1/C18",
                technique="exhaustive enumeration: compiler-generated offsetof/sizeof/kind table from the preprocessed rebound.h vs ctypes field descriptors; option names vs C enumerators with C-side read-back; documented assignments executed literally",
                text="Every member of the 26 mirrored structures is compared (offset, size, kind, signedness, name) between a gcc-compiled program generated from the tree's rebound.h and the ctypes classes of the tree's Python package; every named option value and function option is set by name in Python, read from C by a helper compiled against the header, compared with the enumerator of the same name and read back; every documented option assignment in the docs is executed. The whole finite domain is covered on this platform (exhaustive: true). One open known finding (python_unit_l/m/t order).",
                note="Trusts gcc's layout being the library's (same compiler and defines), the harness's declaration parser (a generated program that does not compile is a harness error) and inspect.getsource for the field/property clash test. Enum members may be c_int or c_uint; pointer kinds are interchangeable. Linux x86-64 default build only."),
    "C03": dict(level="exploration", design="1/C03",
                technique="Hypothesis generation + independent 60-digit mpmath two-body propagation through classical/hyperbolic elements (bracketed Kepler solve) + forked-worker CPU-time termination oracle",
                text="Generated two-body states over the stated element/step domain (3200 direct solver calls, 1200 single steps of 7 Wisdom-Holman-type schemes, 640 WHFast512 steps, 8000 termination probes per quick run; x40 thorough) agree with an independent 60-digit mpmath propagation within K=128 (|dt|<=P) / 1024 (|dt|>P) times the oracle's own 2-eps conditioning; every call returned within a CPU-time budget with finite output. Five open known findings bound the domain actually asserted: hyperbolic |dt|/P>10(e-1) (wrong state, bisection accuracy), elliptic |dt|>100 P, WHFast512 dt>0.2 min(T_q,5P) and its padding scale.",
                note="Trusted: mpmath arithmetic (self-tested through conserved integrals and a round trip before each run); the allowance model (first half-step allowance propagated through the second for DKD schemes); CPU-time hang detection (5 s vs <1 ms normal cost); MERCURIUS/TRACE's own encounter flag defines 'away from encounters'."),
    "C10": dict(level="exploration", design="1/C10",
                technique="Hypothesis generation + inverse (time-reversal) round trip: bitwise comparison for JANUS (doubles and int64 state against a Python IEEE grid image), conditioned tolerance for the symmetric schemes",
                text="1600 generated JANUS round trips per quick run (orders 2-10, position/velocity scales 1e-10..1e-16, N 2-6, n<=300 steps, both signs of dt) restore particle bit patterns and the integer state exactly; 3200 round trips of LEAPFROG, WHFast (4 coordinate systems x safe_mode), 10 uncorrected SABA types, 36 unprocessed EOS combinations and SEI return within 64 eps n (1+3 pi N_orb) scale (measured maxima 2.0-3.8 of 64). Thorough x25.",
                note="Trusted: the Python IEEE grid image float(int(x/s))*s; the shear-growth model of rounding error for regular systems; generators stay in the regular (non-chaotic) regime; SEI pairs that could collide mid-run are skipped."),
    "C09": dict(level="exploration", design="1/C09",
                technique="Hypothesis twin / metamorphic runs over the option lattice: safe vs deferred synchronisation, keep_unsynchronized with generated interleavings of outputs vs untouched reference runs, idempotent synchronisation",
                text="Generated systems x the documented WHFast/SABA/MERCURIUS/EOS/WHFast512 option lattice x generated step/sync/output schedules: deferred and safe mode agree to 16 eps (operator count) (steps+4) scale (measured margin 14x), EOS to its measured drift truncation error; with keep_unsynchronized every output equals bitwise the output of an untouched run stopped at that time, whatever synchronise/energy/orbits/copy/save/pickle calls came before; a second synchronize changes nothing for all integrators, including before the first step.",
                note="Trusted: ctypes access to particle memory and the sa_format map; the tolerance constant was chosen from the measured error distribution after the corrector2 defect was fixed. WHFast512 subs need the avx512 build (skipped, and counted as skipped, on CPUs without avx512f)."),
    "C19": dict(level="exploration", design="1/C19",
                technique="Hypothesis-generated multi-simulation programs under harness-owned step-granular schedules and in parallel threads vs fresh-process isolated runs; loopback HTTP client against the built-in server with heartbeat-recorded step boundaries",
                text="Generated programs of 2-8 simulations over all integrator families (steps, integrate, copy, save/load, pickle, synchronise, particle churn) run under a generated interleaving in one thread and in parallel threads; each final field map must equal bitwise the same program run alone in a fresh process. Served runs: every /simulation response equals the run's own heartbeat record of a step boundary (status/dt aside) and continues bitwise; serving never alters the final state nor other threads' descriptors. One open known finding (WHFast512 shared file-scope constants).",
                note="Intra-call thread interleavings and request arrival times are sampled by the OS, not controlled: the oracle is schedule-independent, so a failure is real and a pass is weak evidence there; the step-granular schedule (interleave) is deterministic and replayable. Timeouts are counted, never verdicts."),
    "C01": dict(level="exploration", design="1/C01",
                technique="Hypothesis + enumerated option lattice vs an independent quad-precision (__float128 Gragg-Bulirsch-Stoer) reference integrator; robust convergence-order measurement over four step halvings",
                text="Every built-in integrator over its documented option lattice (WHFast 4 coordinate systems x kernels x correctors x safe_mode; 18 SABA types; 9x9 EOS x n; JANUS 2-10; MERCURIUS; TRACE incl. pericentre modes; IAS15 fixed and adaptive; BS; SEI; WHFast512; user ODEs) is run on generated collision-free systems (N<=9, three mass regimes, both directions of time, test-particle types 0/1) and compared with a harness-owned quad-precision reference: the observed convergence order is within 0.8 of the advertised one wherever double precision can measure it (orders above 6 asserted as >=6), errors converge to the true solution, adaptive schemes stay in their accuracy class and do not get worse when the tolerance is tightened. ~2200 cases per quick run, ~47000 per thorough pass.",
                note="Trusted base: vf/chelpers/c01_refnbody.c, validated to 1e-22 against closed forms (Kepler both directions, Lagrange triangle, Hill epicycle, forced oscillator) before each run; order table transcribed from docs/integrators.md; horizon 2-6 inner periods; e<=0.3 (trace_peri e<=0.9); measurable window [1.6e-11, 1e-2] with a modelled rounding floor. Coefficient errors that change only the error constant inside the window are not detected (mutant eos-lf4-coefficient-digits, 5e-10, is missed); planet-planet close encounters of the hybrids are not exercised; barycentric WHFast only with N<=4."),
    "C16": dict(level="exploration", design="1/C16",
                technique="Hypothesis + finite-difference / shadow-trajectory oracle (Richardson-estimated tolerances) + metamorphic rescaling + MEGNO limit",
                text="All 65 derivative constructors agree with 4th-order finite differences of REBOUND's own element-to-Cartesian maps to a Richardson-estimated bound; first- and second-order variational particles (IAS15, BS; WHFast and LEAPFROG at order 1) agree with differences of shadow trajectories for Cartesian, mass, classical and Pal parameters, any varied particle, test-particle variations, over 0.3-30 orbits; the automatic rescale preserves coordinates*exp(lrescale) to 2^17 eps; MEGNO tends to 2 and the Lyapunov estimate to 0 on regular two-planet systems. One open known finding (WHFast ignores mass variations).",
                note="REBOUND's own element maps (C11) and IAS15 trajectories (C01) serve as the reference, as the property states ('derivatives of the trajectory'). BS is not in the rescale sub-check; EOS variations and testparticle_type=1 are not covered."),
    "C13": dict(level="exploration", design="1/C13",
                technique="Hypothesis-generated clusters/chains and multi-step histories vs a brute-force longdouble evaluation of the documented collision predicate (with an explicit ambiguity band) and per-call / per-step conservation oracles",
                text="Generated clusters and chains (radii over 4 decades incl. 0, up to 300 dust particles to deepen the tree, all four searches, none/open/periodic/shear boundaries with ghost rings, keep_sorted on/off, generated order seeds): no clearly colliding pair is missed and none clearly non-colliding is reported; a removing resolver always receives valid, still-existing reference pairs; merge and hard-sphere resolution conserve mass, momentum, centre of mass / kinetic energy per call and per step over multi-step histories; no particle is lost, duplicated or merged twice.",
                note="Trusted: the documented predicate evaluated in longdouble; pairs within 32 eps*scale of a predicate boundary are not asserted either way; innermost ghost ring only; masses > 0 when collisions are on; shear images for t>=0; no near-coincident particles (the tree cannot separate them)."),
    "C15": dict(level="exploration", design="1/C15",
                technique="Hypothesis op-list state machine with a longdouble shadow model of unwrapped coordinates and a read-only harness-owned C tree walker; theta=0 tree force vs direct sum",
                text="Histories of free-streaming particles (up to 3.5 root boxes per step, adds, unsorted removals, merging collisions) under periodic / shear / open boundaries: coordinates change only by whole box lengths plus the documented shear offsets, N is unchanged, open boundaries remove exactly the predicted set; at the moment gravity uses the tree and after explicit updates every particle is in exactly one leaf that contains it, with correct counts, cell masses and centres of mass, and the theta=0 tree force equals the direct sum over all ghost images. Includes particles exactly on (and 1-2 ulp beside) root, cell and outer faces.",
                note="Trusted: the step schedule read from the anchors; G=0 in the tree-gravity configuration makes the streaming exact; containment and geometry asserted to 16 eps*box scale (particles in a rounding sliver legitimately churn); last-particle removal and remove_all are left to C14."),
}

NOT_APPLICABLE = []


def main():
    props = [json.loads(l)["id"] for l in open(os.path.join(VERIF, "properties.jsonl"))]
    checks = []
    for pid in props:
        if pid not in CHECKS:
            continue
        c = CHECKS[pid]
        checks.append({
            "property_id": pid,
            "quick_cmd": "./check %s --tier quick" % pid,
            "thorough_cmd": ("./check %s --tier quick --sanitize && ./check %s --tier thorough" % (pid, pid))
            if c.get("sanitize") else "./check %s --tier thorough" % pid,
            "evidence_file": "/verif/evidence/%s.json" % pid,
            "replay_cmd_template": "./check %s --replay {path}" % pid,
            "engine": "vf",
            "level_claimed": {"category": c["level"], "text": c["text"], "design_ref": "DESIGN.md section " + c["design"]},
            "level_note": c["note"],
            "technique": c["technique"],
        })
    na = list(NOT_APPLICABLE)
    claimed = {c["property_id"] for c in checks} | {n["property_id"] for n in na}
    for pid in props:
        if pid not in claimed:
            na.append({"property_id": pid, "reason": "check not built yet in this round (planned, see DESIGN.md section 1); not claimed"})
    m = {
        "version": 1,
        "setup_cmd": "./setup.sh",
        "hooks": {"guard": "REBOUND_VERIF", "enable": "no hooks are compiled into /repo; checks observe through the public API, ctypes and harness-owned C helpers",
                  "baseline_off_cmd": BASELINE, "source_commits": [], "add_only": True},
        "engines": [{"name": "vf", "path": "/verif/vf", "serves_properties": [c["property_id"] for c in checks],
                     "kind_free_text": "Hypothesis-driven property-based testing / enumeration runner with forked jobs, replay files, known-findings handling"}],
        "checks": checks,
        "not_applicable": na,
        "notes": "All checks rebuild /repo's working tree (src/*.c with setup.py's flags + rebound/*.py) into /verif/.build/<variant>-<content hash>/ and import that build. VERIF_SEED seeds every generator.",
    }
    json.dump(m, open(os.path.join(VERIF, "MANIFEST.json"), "w"), indent=1)
    print("MANIFEST.json: %d checks, %d not_applicable" % (len(checks), len(na)))


if __name__ == "__main__":
    main()
