#!/usr/bin/env python3
import json, sys, glob
for f in sys.argv[1:]:
    for g in sorted(glob.glob(f)):
        d = json.load(open(g))
        c = d["case"]
        print("==", g)
        print("msg:", d["message"])
        print("details:", json.dumps(d.get("details"))[:1500])
        if isinstance(c, dict):
            print("case:", json.dumps({k: v for k, v in c.items() if k != "system"})[:2500])
            if "system" in c:
                print("system: N=%d G=%s" % (len(c["system"]["particles"]), c["system"]["G"]))
        else:
            print("case:", json.dumps(c)[:2500])
