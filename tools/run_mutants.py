#!/venv/bin/python
"""Runs tools/sens.py for every mutants/<ID>/*.patch (optionally only some IDs) and records the verdicts in
mutants/STATUS.json: {"<ID>/<name>": {"result": "CAUGHT|MISSED|ERROR", "by": [subs], "head": <repo HEAD>}}.
usage: tools/run_mutants.py [ID ...] [--jobs N] [--only-missing]"""
import json, os, subprocess, sys, glob
from concurrent.futures import ThreadPoolExecutor
V = os.path.dirname(os.path.dirname(os.path.abspath(__file__)))
args = [a for a in sys.argv[1:] if not a.startswith("--")]
jobs = 2
only_missing = "--only-missing" in sys.argv
for a in sys.argv[1:]:
    if a.startswith("--jobs="):
        jobs = int(a.split("=")[1])
sp = os.path.join(V, "mutants", "STATUS.json")
status = json.load(open(sp)) if os.path.exists(sp) else {}
head = subprocess.run(["git", "-C", "/repo", "rev-parse", "--short", "HEAD"], capture_output=True, text=True).stdout.strip()
todo = []
for d in sorted(glob.glob(os.path.join(V, "mutants", "C*"))):
    pid = os.path.basename(d)
    if args and pid not in args:
        continue
    for p in sorted(glob.glob(os.path.join(d, "*.patch"))):
        key = "%s/%s" % (pid, os.path.basename(p)[:-6])
        if only_missing and key in status and status[key]["result"] in ("CAUGHT", "MISSED"):
            continue
        todo.append((pid, p, key))


def run(item):
    pid, p, key = item
    r = subprocess.run([os.path.join(V, "tools", "sens.py"), pid, "--patch", p], capture_output=True, text=True)
    out = r.stdout
    res = "ERROR"
    for l in out.splitlines():
        if l.startswith("SENS"):
            res = l.rsplit(":", 1)[1].strip().split()[0]
    subs = sorted({l.split("sub=")[1].split(":")[0] for l in out.splitlines() if l.strip().startswith("sub=")})
    corpus_only = all("regression corpus" in l for l in out.splitlines() if l.strip().startswith("sub=")) and bool(subs)
    return key, {"result": res, "by": subs, "corpus_only": corpus_only, "head": head,
                 "detail": "" if res != "ERROR" else (out[-600:] + r.stderr[-300:])}


with ThreadPoolExecutor(jobs) as ex:
    for key, v in ex.map(run, todo):
        status[key] = v
        print(key, v["result"], ",".join(v["by"]), flush=True)
        json.dump(status, open(sp, "w"), indent=1, sort_keys=True)
print("done", len(todo))
