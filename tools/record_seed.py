#!/usr/bin/env python3
"""usage: tools/record_seed.py <seed id> <property> <caught|missed-then-caught|missed> "<which sub / what was strengthened>" """
import json, sys, os
sid, prop, result, note = sys.argv[1:5]
p = os.path.join(os.path.dirname(os.path.dirname(os.path.abspath(__file__))), "seeded", sid, "meta.json")
m = json.load(open(p))
m["coordinator"] = {
    "property": prop,
    "confirmed": "tools/verify_seed.sh %s %s: patch applies to /repo HEAD in a scratch worktree, builds, demo.py prints PASS (exit 0) without and FAIL (exit 1) with the change, pytest summary with the change '1 failed, 873 passed, 4 errors' (= baseline)" % (sid, prop),
    "check_result": result,
    "check_run": "tools/sens.py %s --patch seeded/%s/patch.diff" % (prop, sid),
    "note": note,
}
json.dump(m, open(p, "w"), indent=1)
print("recorded", sid)
