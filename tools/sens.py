#!/venv/bin/python
"""Sensitivity run: apply a patch (or check out a revision) in a scratch worktree of /repo outside /repo and
/verif, run a check against it with VERIF_REPO, report whether it raised a VIOLATION, clean up.

usage: tools/sens.py <ID> (--patch FILE | --rev REV) [--tier quick] [--seed N] [--keep-out DIR]
exit 0 = mutant caught (check exited 1), 1 = missed, 2 = error
"""
import argparse
import os
import shutil
import subprocess
import sys
import tempfile

VERIF = os.path.dirname(os.path.dirname(os.path.abspath(__file__)))


def main():
    ap = argparse.ArgumentParser()
    ap.add_argument("prop")
    ap.add_argument("--patch")
    ap.add_argument("--rev", default="HEAD")
    ap.add_argument("--tier", default="quick")
    ap.add_argument("--seed", default="1")
    ap.add_argument("--sub", action="append")
    ap.add_argument("--sanitize", action="store_true")
    a = ap.parse_args()
    wt = tempfile.mkdtemp(prefix="vf-mut-", dir=os.environ.get("TMPDIR", "/tmp"))
    out = tempfile.mkdtemp(prefix="vf-out-", dir=os.environ.get("TMPDIR", "/tmp"))
    os.rmdir(wt)
    rc = 2
    try:
        subprocess.run(["git", "-C", "/repo", "worktree", "add", "--detach", "-q", wt, a.rev], check=True)
        if a.patch:
            subprocess.run(["git", "-C", wt, "apply", os.path.abspath(a.patch)], check=True)
        env = dict(os.environ, VERIF_REPO=wt, VERIF_OUT=out, VERIF_SEED=a.seed)
        cmd = [os.path.join(VERIF, "check"), a.prop, "--tier", a.tier]
        if a.sanitize:
            cmd.append("--sanitize")
        for s in a.sub or []:
            cmd += ["--sub", s]
        r = subprocess.run(cmd, env=env, capture_output=True, text=True)
        lines = [l for l in r.stdout.splitlines() if l.startswith(("VIOLATION", "SUMMARY", "  sub=", "HARNESS", "KNOWN", "INCONCL"))]
        print("\n".join(lines[:30]))
        if r.returncode == 1:
            print("SENS %s %s: CAUGHT" % (a.prop, a.patch or a.rev))
            rc = 0
        elif r.returncode == 0:
            print("SENS %s %s: MISSED" % (a.prop, a.patch or a.rev))
            rc = 1
        else:
            print(r.stdout[-3000:], r.stderr[-3000:])
            print("SENS %s %s: ERROR rc=%d" % (a.prop, a.patch or a.rev, r.returncode))
    finally:
        subprocess.run(["git", "-C", "/repo", "worktree", "remove", "--force", wt], capture_output=True)
        shutil.rmtree(wt, ignore_errors=True)
        shutil.rmtree(out, ignore_errors=True)
        subprocess.run(["git", "-C", "/repo", "worktree", "prune"], capture_output=True)
    sys.exit(rc)


if __name__ == "__main__":
    main()
