#!/bin/bash
# usage: tools/verify_seed.sh <seed-id e.g. C17a> <property>   (expects /tmp/seed-<id>-out/{patch.diff,demo.py,meta.json})
# Confirms: patch applies to /repo HEAD, builds, suite passes as baseline, demo FAILs with and PASSes without.
id=$1; prop=$2; out=/tmp/seed-$id-out; wt=/tmp/vseed-$id
set -u
rm -rf $wt; git -C /repo worktree add --detach -q $wt HEAD || exit 2
cd $wt
/venv/bin/python setup.py build_ext --inplace >/dev/null 2>&1; rm -rf build
cp $out/demo.py $wt/_seed_demo.py   # run from inside the checkout so that `import rebound` resolves to it
echo "== demo on unchanged tree"; /venv/bin/python $wt/_seed_demo.py 2>&1 | tail -3; echo "rc=$?"
r0=${PIPESTATUS[0]}
git apply $out/patch.diff || { echo "PATCH DOES NOT APPLY"; cd /; git -C /repo worktree remove --force $wt; exit 2; }
/venv/bin/python setup.py build_ext --inplace >/tmp/vseed-$id-build.log 2>&1 || { echo "BUILD FAILED"; tail -5 /tmp/vseed-$id-build.log; }
rm -rf build
echo "== demo on changed tree"; /venv/bin/python $wt/_seed_demo.py 2>&1 | tail -3; echo "rc_changed=${PIPESTATUS[0]}"
[ -n "${SKIP_SUITE:-}" ] || { echo "== suite on changed tree"; timeout 1500 /venv/bin/python -m pytest -q -p no:cacheprovider --timeout=900 --continue-on-collection-errors 2>&1 | tail -1; }
cd /; git -C /repo worktree remove --force $wt; rm -rf $wt
mkdir -p /verif/seeded/$id; cp $out/patch.diff $out/demo.py $out/meta.json /verif/seeded/$id/ 2>/dev/null
echo "== copied to /verif/seeded/$id"
