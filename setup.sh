#!/bin/bash
# Offline setup: python deps into /verif/.deps, build the tree under test once.
set -e
cd "$(dirname "$0")"
mkdir -p .deps .build .scratch evidence replays
/venv/bin/pip install --quiet --no-index --find-links /opt/veriftools/wheels --target .deps --upgrade \
    hypothesis mpmath jsonschema >/dev/null 2>&1 || \
/venv/bin/pip install --no-index --find-links /opt/veriftools/wheels --target .deps --upgrade hypothesis mpmath jsonschema
export PYTHONDONTWRITEBYTECODE=1
/venv/bin/python -m vf.build opt
if grep -q avx512f /proc/cpuinfo; then /venv/bin/python -m vf.build avx512; fi
/venv/bin/python -m vf.selftest
echo "setup ok"
